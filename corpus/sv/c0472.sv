module t0472;
module m(input clock);
                  logic a;
                  let p1(x) = $past(x);
                  let p2(x) = $past(x,,,@(posedge clock));
                  let s(x) = $sampled(x);
                  always_comb begin
                    a1: assert(($past(a))); // Illegal: no clock can be inferred
                    a2: assert(($past(a,,,@(posedge clock))));
                    a3: assert(($sampled (a)));
                  end
                  a4: assert property(@(posedge clock)($past(a))); // @(posedge clock)
                                                                   // is inferred
                endmodule : m
endmodule
