module t1018;
interface itf;
                  logic c,q,d;
                  modport flop (input c,d, output q);
                endinterface

                module dtype (itf.flop ch);
                  always_ff @(posedge ch.c) ch.q <= ch.d;
                  specify
                    ( posedge ch.c => (ch.q+:ch.d)) = (5,6);
                    $setup( ch.d, posedge ch.c, 1 );
                  endspecify
                endmodule
endmodule
