module t0041;
bit [7:0] d = "\n" ;
endmodule
