package NetsPkg;
                  nettype real realNet;
                endpackage : NetsPkg

                module top();
                  interconnect [0:1] iBus;
                  lDriver l1(iBus[0]);
                  rDriver r1(iBus[1]);
                  rlMod m1(iBus);
                endmodule : top

                module lDriver(output wire logic out);
                endmodule : lDriver

                module rDriver
                  import NetsPkg::*;
                  (output realNet out);
                endmodule : rDriver

                module rlMod(input interconnect [0:1] iBus);
                  lMod l1(iBus[0]);
                  rMod r1(iBus[1]);
                endmodule : rlMod
