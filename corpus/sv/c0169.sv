module t0169;
int Array[0:7][0:31]; // array declaration using ranges

                int Array[8][32];     // array declaration using sizes
endmodule
