module t0043;
bit [0:11] [7:0] stringvar = "Hello world\n" ;
endmodule
