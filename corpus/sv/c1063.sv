module t1063;
pullup (strong1) p1 (neta), p2 (netb);
endmodule
