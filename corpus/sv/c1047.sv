module t1047;
parameter SIZE = 2;
                genvar i, j, k, m;
                generate
                  for (i=0; i<SIZE; i=i+1) begin:B1 // scope B1[i]
                    M1 N1(); // instantiates B1[i].N1
                    for (j=0; j<SIZE; j=j+1) begin:B2 // scope B1[i].B2[j]
                      M2 N2(); // instantiates B1[i].B2[j].N2
                      for (k=0; k<SIZE; k=k+1) begin:B3 // scope B1[i].B2[j].B3[k]
                        M3 N3(); // instantiates
                      end // B1[i].B2[j].B3[k].N3
                    end
                    if (i>0) begin:B4 // scope B1[i].B4
                      for (m=0; m<SIZE; m=m+1) begin:B5 // scope B1[i].B4.B5[m]
                        M4 N4(); // instantiates
                      end // B1[i].B4.B5[m].N4
                    end
                  end
                endgenerate
endmodule
