module t0563;
initial begin
                  bus.data[3:0] <= 4'h5; // drive data in Re-NBA region of the current cycle

                  ##1 bus.data <= 8'hz;  // wait 1 default clocking cycle, then drive data

                  ##2; bus.data <= 2;    // wait 2 default clocking cycles, then drive data

                  bus.data <= ##2 r;     // remember the value of r and then drive
                                         // data 2 (bus) cycles later

                  bus.data <= #4 r;      // error: regular intra-assignment delay not allowed
                                         // in synchronous drives
                end
endmodule
