module test;
                  logic a;
                  initial begin
                    a <= 0;
                    a <= 1;
                  end
                endmodule
