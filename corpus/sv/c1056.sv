module t1056;
and a1 (out, in1, in2);
endmodule
