module t0902;
initial begin
                  integer code ;
                  code = $fread( integral_var, fd);
                  code = $fread( mem, fd);
                  code = $fread( mem, fd, start);
                  code = $fread( mem, fd, start, count);
                  code = $fread( mem, fd, , count);
                end
endmodule
