module t0260;
typedef int T; // T and int are matching data types.
                class C;
                  virtual function C some_method(int a); endfunction
                endclass

                class D extends C;
                  virtual function D some_method(T a); endfunction
                endclass

                class E #(type Y = logic) extends C;
                  virtual function D some_method(Y a); endfunction
                endclass

                E #() v1;    // Illegal: type parameter Y resolves to logic, which is not
                             // a matching type for argument a
                E #(int) v2; // Legal: type parameter Y resolves to int
endmodule
