primitive latch (q, ena_, data);
                  output q; reg q;
                  input ena_, data;
                  table
                    // ena_ data : q : q+
                       0    1    : ? : 1 ;
                       0    0    : ? : 0 ;
                       1    ?    : ? : - ; // - = no change
                  endtable
                endprimitive
