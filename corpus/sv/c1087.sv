module t1087;
specify
                  (a=>out)=(2,3);
                  (b =>out)=(3,4);
                endspecify
endmodule
