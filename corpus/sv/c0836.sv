module t0836;
class DSL; endclass // class that creates valid DSL packets

                initial begin
                  randsequence (STREAM)
                    STREAM : GAP DATA := 80
                           | DATA := 20 ;
                    DATA   : PACKET(0) := 94 { transmit( PACKET ); }
                           | PACKET(1) := 6 { transmit( PACKET ); } ;

                    DSL PACKET (bit bad) : { DSL d = new;
                                           if( bad ) d.crc ^= 23; // mangle crc
                                           return d;
                                           };
                    GAP: { ## ($urandom_range( 1, 20 )); };
                  endsequence
                end
endmodule
