module t0400;
initial begin
                  string S1, S2;
                  typedef string T_SQ[$];
                  T_SQ SQ;

                  S1 = "S1";
                  S2 = "S2";
                  SQ = '{"element 0", "element 1"}; // assignment pattern, two strings
                  SQ = {S1, SQ, {"element 3 is ", S2} };
                end
endmodule
