module t0651;
sequence seq2b;
                  int v1; c ##1 !sub_seq2(v1).triggered ##1 (do1 == v1); // v1 unassigned
                endsequence
endmodule
