`begin_keywords "1800-2005" // use IEEE Std 1800-2005 SystemVerilog keywords
                interface if1;
                endinterface
                `end_keywords
