module t0233;
class C;
                  int c1 = 1;
                  int c2 = 1;
                  int c3 = 1;
                  function new(int a);
                    c2 = 2;
                    c3 = a;
                  endfunction
                endclass

                class D extends C;
                  int d1 = 4;
                  int d2 = c2;
                  int d3 = 6;
                  function new;
                    super.new(d3);
                  endfunction
                endclass
endmodule
