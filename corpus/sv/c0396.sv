module t0396;
initial #10 s2 = '{default:'1, s : ""}; // set all to 1 except s to ""
endmodule
