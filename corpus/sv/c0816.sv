module t0816;
module stim;
                  bit [15:0] addr;
                  bit [31:0] data;

                  function bit gen_stim();
                    bit success, rd_wr;

                    success = randomize( addr, data, rd_wr ); // call std::randomize
                    return rd_wr ;
                  endfunction
                endmodule
endmodule
