module t0845;
covergroup g4;
                  coverpoint s0 iff(!reset);
                endgroup
endmodule
