module t0494;
module m;
                  initial begin
                    for (int i = 0; i <= 255; i++);
                  end

                  initial begin
                    loop2: for (int i = 15; i >= 0; i--);
                  end
                endmodule
endmodule
