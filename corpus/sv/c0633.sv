module t0633;
a4: assert property (##1 $stable_gclk(sig));
                // In a5, there is no issue at cycle 0
                a5: assert property ($steady_gclk(sig));
endmodule
