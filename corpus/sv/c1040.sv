package p;
                  typedef enum { FALSE, TRUE } BOOL;
                  const BOOL c = FALSE;
                endpackage

                package q;
                  const int c = 0;
                endpackage
