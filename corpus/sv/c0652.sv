module t0652;
sequence sub_seq3(lv);
                  int lv; // illegal because lv is a formal argument
                  (a ##1 !a, lv = data_in) ##1 !b[*0:$] ##1 b && (data_out == lv);
                endsequence
endmodule
