module t0699;
property mult_p1;
                  @(posedge clk) a ##1 @(posedge clk1) s1 ##1 @(posedge clk2) s2;
                endproperty
endmodule
