module t0834;
initial begin
                  randsequence( bin_op )
                    void bin_op : value operator value // void type is optional
                                  { $display("%s %b %b", operator, value[1], value[2]); }
                                  ;
                    bit [7:0] value : { return $urandom; } ;
                    string operator : add := 5 { return "+" ; }
                                    | dec := 2 { return "-" ; }
                                    | mult := 1 { return "*" ; }
                                    ;
                  endsequence
                end
endmodule
