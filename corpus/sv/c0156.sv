module top ();
                  typedef logic [7:0] t_t0;
                  C#(t_t0,3)::t_vector v0;
                  C#(t_t0,3)::t_array a0;
                  C#(bit,4)::t_struct s0;
                endmodule
