module t0146;
initial begin
                  typedef enum { red, green, blue, yellow, white, black } Colors;
                  Colors col;
                  $cast( col, 2 + 3 );
                end
endmodule
