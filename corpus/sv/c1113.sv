module t1113;
module clock(clk);
                  output clk;
                  reg clk;
                  specparam dhigh=0, dlow=0;
                  initial clk = 0;
                  always
                    begin
                      #dhigh clk = 1; // Clock remains low for time dlow
                                      // before transitioning to 1
                      #dlow clk = 0;  // Clock remains high for time dhigh
                                      // before transitioning to 0
                    end
                endmodule
endmodule
