module t0205;
initial begin
                  int imem[int];
                  imem[ 3 ] = 1;
                  imem[ 16'hffff ] = 2;
                  imem[ 4'b1000 ] = 3;
                  $display( "%0d entries\n", imem.num ); // prints "3 entries"
                end
endmodule
