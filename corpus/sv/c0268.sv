module t0268;
class StringList;
                  class Node; // Nested class for a node in a linked list.
                    string name;
                    Node link;
                  endclass
                endclass

                class StringTree;
                  class Node; // Nested class for a node in a binary tree.
                    string name;
                    Node left, right;
                  endclass
                endclass
                // StringList::Node is different from StringTree::Node
endmodule
