module t0167;
bit [7:0] c1; // packed array of scalar bit types
                real u [7:0]; // unpacked array of real types
endmodule
