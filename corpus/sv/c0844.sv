module t0844;
covergroup cg ( ref int x , ref int y, input int c);

                  coverpoint x;      // creates coverpoint "x" covering the formal "x"
                  x: coverpoint y;   // INVALID: coverpoint label "x" already exists
                  b: coverpoint y;   // creates coverpoint "b" covering the formal "y"

                  cx: coverpoint x;  // creates coverpoint "cx" covering the formal "x"

                  option.weight = c; // set weight of "cg" to value of formal "c"

                  bit [7:0] d: coverpoint y[31:24]; // creates coverpoint "d" covering the
                                                    // high order 8 bits of the formal "y"
                  e: coverpoint x {
                    option.weight = 2; // set the weight of coverpoint "e"
                  }
                  //e.option.weight = 2; // INVALID use of "e", also syntax error

                  cross x, y {         // Creates implicit coverpoint "y" covering
                                       // the formal "y". Then creates a cross of
                                       // coverpoints "x", "y"
                    option.weight = c; // set weight of cross to value of formal "c"
                  }
                  b: cross y, x;       // INVALID: coverpoint label "b" already exists
                endgroup
endmodule
