module t1052;
module top;
                  parameter genblk2 = 0;
                  genvar i;

                  // The following generate block is implicitly named genblk1
                  if (genblk2) logic a; // top.genblk1.a
                  else logic b;         // top.genblk1.b

                  // The following generate block is implicitly named genblk02
                  // as genblk2 is already a declared identifier
                  if (genblk2) logic a; // top.genblk02.a
                  else logic b;         // top.genblk02.b

                  // The following generate block would have been named genblk3
                  // but is explicitly named g1
                  for (i = 0; i < 1; i = i + 1) begin : g1 // block name
                    // The following generate block is implicitly named genblk1
                    // as the first nested scope inside g1
                    if (1) logic a; // top.g1[0].genblk1.a
                  end

                  // The following generate block is implicitly named genblk4 since
                  // it belongs to the fourth generate construct in scope "top".
                  // The previous generate block would have been
                  // named genblk3 if it had not been explicitly named g1
                  for (i = 0; i < 1; i = i + 1)
                    // The following generate block is implicitly named genblk1
                    // as the first nested generate block in genblk4
                    if (1) logic a; // top.genblk4[0].genblk1.a

                  // The following generate block is implicitly named genblk5
                  if (1) logic a; // top.genblk5.a
                endmodule
endmodule
