module t0643;
sequence s;
                  logic u, v = a, w = v || b;
                  u;
                endsequence
endmodule
