module t0999;
module m;
                  task T;
                    S1: a = b; // executes in reactive region set if called from a program
                    #5;
                    S2: b <= 1'b1; // executes in reactive region set if called from a program
                  endtask
                endmodule
endmodule
