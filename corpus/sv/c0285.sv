module t0285;
interface class PutImp#(type PUT_T = logic);
                  pure virtual function void put(PUT_T a);
                endclass

                interface class GetImp#(type GET_T = logic);
                  pure virtual function GET_T get();
                endclass

                class Fifo#(type T = logic, int DEPTH=1) implements PutImp#(T), GetImp#(T);
                  T myFifo [$:DEPTH-1];
                  virtual function void put(T a);
                    myFifo.push_back(a);
                  endfunction
                  virtual function T get();
                    get = myFifo.pop_front();
                  endfunction
                endclass

                class Stack#(type T = logic, int DEPTH=1) implements PutImp#(T), GetImp#(T);
                  T myFifo [$:DEPTH-1];
                  virtual function void put(T a);
                    myFifo.push_front(a);
                  endfunction
                  virtual function T get();
                    get = myFifo.pop_front();
                  endfunction
                endclass
endmodule
