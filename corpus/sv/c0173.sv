module t0173;
bit [1:10] v1 [1:5];  // 1 to 10 varies most rapidly; compatible with memory arrays

                bit v2 [1:5] [1:10];  // 1 to 10 varies most rapidly, compatible with C

                bit [1:5] [1:10] v3 ; // 1 to 10 varies most rapidly

                bit [1:5] [1:6] v4 [1:7] [1:8]; // 1 to 6 varies most rapidly, followed by
                                                // 1 to 5, then 1 to 8 and then 1 to 7
endmodule
