module t0218;
initial begin
                  q = q[2:$];   // a new queue lacking the first two items
                  q = q[1:$-1]; // a new queue lacking the first and last items
                end
endmodule
