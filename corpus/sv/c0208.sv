module t0208;
initial begin
                  string s;
                  if ( map.first( s ) )
                    $display( "First entry is : map[ %s ] = %0d\n", s, map[s] );
                end
endmodule
