module t1080;
module ALU (o1, i1, i2, opcode);
                  input [7:0] i1, i2;
                  input [2:1] opcode;
                  output [7:0] o1;

                  //functional description omitted
                  specify
                    // add operation
                    if (opcode == 2'b00) (i1,i2 *> o1) = (25.0, 25.0);
                    // pass-through i1 operation
                    if (opcode == 2'b01) (i1 => o1) = (5.6, 8.0);
                    // pass-through i2 operation
                    if (opcode == 2'b10) (i2 => o1) = (5.6, 8.0);
                    // delays on opcode changes
                    (opcode *> o1) = (6.1, 6.5);
                  endspecify
                endmodule
endmodule
