module t1086;
specify
                  // one expression specifies all transitions
                  (C => Q) = 20;
                  (C => Q) = 10:14:20;

                  // two expressions specify rise and fall delays
                  specparam tPLH1 = 12, tPHL1 = 25;
                  specparam tPLH2 = 12:16:22, tPHL2 = 16:22:25;
                  (C => Q) = ( tPLH1, tPHL1 ) ;
                  (C => Q) = ( tPLH2, tPHL2 ) ;

                  // three expressions specify rise, fall, and z transition delays
                  specparam tPLH1 = 12, tPHL1 = 22, tPz1 = 34;
                  specparam tPLH2 = 12:14:30, tPHL2 = 16:22:40, tPz2 = 22:30:34;
                  (C => Q) = (tPLH1, tPHL1, tPz1);
                  (C => Q) = (tPLH2, tPHL2, tPz2);

                  // six expressions specify transitions to/from 0, 1, and z
                  specparam t01 = 12, t10 = 16, t0z = 13,
                            tz1 = 10, t1z = 14, tz0 = 34 ;
                  (C => Q) = ( t01, t10, t0z, tz1, t1z, tz0) ;
                  specparam T01 = 12:14:24, T10 = 16:18:20, T0z = 13:16:30 ;
                  specparam Tz1 = 10:12:16, T1z = 14:23:36, Tz0 = 15:19:34 ;
                  (C => Q) = ( T01, T10, T0z, Tz1, T1z, Tz0) ;

                  // twelve expressions specify all transition delays explicitly
                  specparam t01=10, t10=12, t0z=14, tz1=15, t1z=29, tz0=36,
                  t0x=14, tx1=15, t1x=15, tx0=14, txz=20, tzx=30 ;
                  (C => Q) = (t01, t10, t0z, tz1, t1z, tz0,
                              t0x, tx1, t1x, tx0, txz, tzx) ;
                endspecify
endmodule
