package p1;
                  int x, y;
                endpackage

                package p2;
                  import p1::x;
                  export p1::*; // exports p1::x as the name "x";
                                // p1::x and p2::x are the same declaration
                endpackage

                package p3;
                  import p1::*;
                  import p2::*;
                  export p2::*;
                  int q = x;
                  // p1::x and q are made available from p3. Although p1::y
                  // is a candidate for import, it is not actually imported
                  // since it is not referenced. Since p1::y is not imported,
                  // it is not made available by the export.
                endpackage

                package p4;
                  import p1::*;
                  export p1::*;
                  int y = x; // y is available as a direct declaration;
                             // p1::x is made available by the export
                endpackage

                package p5;
                  import p4::*;
                  import p1::*;
                  export p1::x;
                  export p4::x; // p4::x refers to the same declaration
                                // as p1::x so this is legal.
                endpackage

                package p6;
                  import p1::*;
                  export p1::x;
                  int x; // Error. export p1::x is considered to
                         // be a reference to "x" so a subsequent
                         // declaration of x is illegal.
                endpackage

                package p7;
                  int y;
                endpackage

                package p8;
                  export *::*; // Exports both p7::y and p1::x.
                  import p7::y;
                  import p1::x;
                endpackage

                module top;
                  import p2::*;
                  import p4::*;
                  int y = x; // x is p1::x
                endmodule
