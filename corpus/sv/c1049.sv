module t1049;
module multiplier(a,b,product);
                  parameter a_width = 8, b_width = 8;
                  localparam product_width = a_width+b_width;
                    // cannot be modified directly with the defparam
                    // statement or the module instance statement #
                  input [a_width-1:0] a;
                  input [b_width-1:0] b;
                  output [product_width-1:0] product;

                  generate
                    if((a_width < 8) || (b_width < 8)) begin: mult
                      CLA_multiplier #(a_width,b_width) u1(a, b, product);
                      // instantiate a CLA multiplier
                    end
                    else begin: mult
                      WALLACE_multiplier #(a_width,b_width) u1(a, b, product);
                      // instantiate a Wallace-tree multiplier
                    end
                  endgenerate
                  // The hierarchical instance name is mult.u1
                endmodule
endmodule
