module t0687;
property legal_3(p);
                  disable iff (b) prop_always(p);
                endproperty
endmodule
