module t0209;
initial begin
                  string s;
                  if ( map.last( s ) )
                    $display( "Last entry is : map[ %s ] = %0d\n", s, map[s] );
                end
endmodule
