module t0604;
sequence s1;
                  @(posedge clk) a ##1 b ##1 c;
                endsequence
                sequence s2;
                  @(posedge clk) d ##1 e ##1 f;
                endsequence
                sequence s3;
                  @(negedge clk) g ##1 h ##1 i;
                endsequence
                sequence s4;
                  @(edge clk) j ##1 k ##1 l;
                endsequence
endmodule
