module t0623;
always @(posedge clk)
                  reg1 <= a & $past(b);
endmodule
