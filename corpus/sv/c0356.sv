module t0356;
module m ();
                  always
                    begin : always1
                      t1: task1( ); // task call
                    end

                  always
                    begin
                      disable m.always1; // exit always1, which will exit task1,
                                         // if it was currently executing
                  end
                endmodule
endmodule
