module t0375;
module multiple3;
                  logic a;
                  initial #8 a <= #8 1;  // executed at time 8;
                                         // schedules an update of 1 at time 16
                  initial #12 a <= #4 0; // executed at time 12;
                                         // schedules an update of 0 at time 16

                  // Because it is determinate that the update of a to the value 1
                  // is scheduled before the update of a to the value 0,
                  // then it is determinate that a will have the value 0
                  // at the end of time slot 16.
                endmodule
endmodule
