module t0118;
parameter r2 = $;
                property inq1(r1,r2);
                  @(posedge clk) a ##[r1:r2] b ##1 c |=> d;
                endproperty
                assert property (inq1(3, r2));
endmodule
