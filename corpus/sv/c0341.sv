module t0341;
module latch (output logic [31:0] y, input [31:0] a, input enable);
                  always @(a iff enable == 1)
                    y <= a; //latch is in transparent mode
                endmodule
endmodule
