module t0505;
task mytask3(a, b, output logic [15:0] u, v);
                endtask
endmodule
