module t0892;
module disp;
                  logic [31:0] rval;
                  pulldown (pd);
                  initial begin
                    rval = 101;
                    $display("rval = %h hex %d decimal",rval,rval);
                    $display("rval = %o octal\nrval = %b bin",rval,rval);
                    $display("rval has %c ascii character value",rval);
                    $display("pd strength value is %v",pd);
                    $display("current scope is %m");
                    $display("%s is ascii value for 101",101);
                    $display("simulation time is %t", $time);
                  end
                endmodule
endmodule
