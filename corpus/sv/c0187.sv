module t0187;
integer addr[];  // Declare the dynamic array.
                initial begin
                  addr = new[100]; // Create a 100-element array.
                  // Double the array size, preserving previous values.
                  // Preexisting references to elements of addr are outdated.
                  addr = new[200](addr);
                end
endmodule
