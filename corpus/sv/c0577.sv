module t0577;
initial begin
                  wait_order( a, b, c);
                end
endmodule
