module t0820;
initial begin
                  integer x, y, z;
                  fork //set a seed at the start of a thread
                    begin process::self.srandom(100); x = $urandom; end
                       //set a seed during a thread
                    begin y = $urandom; process::self.srandom(200); end
                       // draw 2 values from the thread RNG
                    begin z = $urandom + $urandom ; end
                  join
                end
endmodule
