module t0474;
initial begin
                  if (index > 0)
                    begin
                      if (rega > regb)
                        result = rega;
                    end
                  else result = regb;
                end
endmodule
