module t0254;
class Packet;                      // base class
                  integer value;
                  function integer delay();
                    delay = value * value;
                  endfunction
                endclass

                class LinkedPacket extends Packet; // derived class
                  integer value;
                  function integer delay();
                    delay = super.delay()+ value * super.value;
                  endfunction
                endclass
endmodule
