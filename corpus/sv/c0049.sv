module t0049;
struct {int X,Y,Z;} XYZ = '{3{1}};
                typedef struct {int a,b[4];} ab_t;
                int a,b,c;
                ab_t v1[1:0] [2:0];
                v1 = '{2{'{3{'{a,'{2{b,c}}}}}}};
endmodule
