module t0555;
initial begin
                  @(ram_bus.ack_l);
                end
endmodule
