module t0492;
initial begin
                  case (instr) matches
                    tagged Add '{.*, .*, 0} : ; // no op
                    tagged Add '{.r1, .r2, .rd} : rf[rd] = rf[r1] + rf[r2];
                    tagged Jmp .j : case (j) matches
                                      tagged JmpU .a : pc = pc + a;
                                      tagged JmpC '{.c, .a} : if (rf[c]) pc = a;
                                    endcase
                  endcase
                end
endmodule
