module t0654;
sequence s5;
                  int x,y;
                  ((a ##1 (b, x = data, y = data1) ##1 c)
                    or (d ##1 (true, x = data) ##0 (e==x))) ##1 (y==data2);
                  // illegal because y is not in the intersection
                endsequence
                sequence s6;
                  int x,y;
                  ((a ##1 (b, x = data, y = data1) ##1 c)
                    or (d ##1 (true, x = data) ##0 (e==x))) ##1 (x==data2);
                  // legal because x is in the intersection
                endsequence
endmodule
