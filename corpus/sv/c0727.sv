module t0727;
always @(posedge clk) begin
                  // variable declared in for statement is automatic (see 12.7.1)
                  for (int i=0; i<10; i++) begin
                    a4: assert property (foo[i] && bar[i]);
                    a5: assert property (foo[const'(i)] && bar[i]);
                    a6: assert property (foo[const'(i)] && bar[const'(i)]);
                  end
                end
endmodule
