module t0408;
module lib1_dff(Reset, Clk, Data, Q, Q_Bar);
                endmodule

                module lib2_dff(reset, clock, data, q, qbar);
                endmodule

                module lib3_dff(RST, CLK, D, Q, Q_);
                endmodule

                module my_dff(rst, clk, d, q, q_bar); // wrapper cell
                  input rst, clk, d;
                  output q, q_bar;
                  alias rst = Reset = reset = RST;
                  alias clk = Clk = clock = CLK;
                  alias d = Data = data = D;
                  alias q = Q;
                  alias Q_ = q_bar = Q_Bar = qbar;
                  LIB_DFF my_dff (.*); // LIB_DFF is any of lib1_dff, lib2_dff or lib3_dff
                endmodule
endmodule
