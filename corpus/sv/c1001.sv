module t1001;
module memMod( input  logic req,
                                      logic clk,
                                      logic start,
                                      logic [1:0] mode,
                                      logic [7:0] addr,
                               inout  wire [7:0] data,
                               output bit gnt,
                                      bit rdy );
                  logic avail;
                endmodule

                module cpuMod(
                  input  logic clk,
                         logic gnt,
                         logic rdy,
                  inout  wire [7:0] data,
                  output logic req,
                         logic start,
                         logic [7:0] addr,
                         logic [1:0] mode );
                endmodule

                module top;
                  logic req, gnt, start, rdy;
                  logic clk = 0;
                  logic [1:0] mode;
                  logic [7:0] addr;
                  wire [7:0] data;

                  memMod mem(req, clk, start, mode, addr, data, gnt, rdy);
                  cpuMod cpu(clk, gnt, rdy, data, req, start, addr, mode);
                endmodule
endmodule
