module t0103;
enum {a, b=7, c} alphabet;
endmodule
