module t0548;
module processor();
                  clocking busA @(posedge clk1); endclocking
                  clocking busB @(negedge clk2); endclocking
                  module cpu( interface y );
                    default clocking busA ;
                    initial begin
                      ## 5; // use busA => (posedge clk1)
                    end
                  endmodule
                endmodule
endmodule
