module t0744;
always @(posedge clk) assert property (not (a ##2 b));
endmodule
