module t0235;
class c;
                  function new(int cmd = IDLE, bit[12:0] adrs = 0, int cmd_time );
                    command = cmd;
                    address = adrs;
                    time_requested = cmd_time;
                  endfunction
                endclass
endmodule
