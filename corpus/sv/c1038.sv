package p;
                  function int f();
                    return 1;
                  endfunction
                endpackage

                package p2;
                  function int f();
                    return 1;
                  endfunction
                endpackage

                module top;
                  import p::*;
                  int x;
                  if (1) begin : b
                    initial x = f(); // line 1
                  end
                  import p2::*;
                endmodule
