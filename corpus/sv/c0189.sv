module t0189;
initial begin
                  int ab [] = new[ N ];      // create a temporary array of size N
                  // use ab
                  ab.delete;                 // delete the array contents
                  $display( "%d", ab.size ); // prints 0
                end
endmodule
