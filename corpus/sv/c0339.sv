module t0339;
always @* begin // same as @(a or en)
                  y = 8'hff;
                  y[a] = !en;
                end
endmodule
