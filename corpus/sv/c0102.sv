module t0102;
enum {a=0, b=7, c, d=8} alphabet;
endmodule
