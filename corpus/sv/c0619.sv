module t0619;
sequence seq2_inlined;
                  int v1, lv;
                  (c, v1 = data) ##1
                  (
                    (1, lv = v1) ##0
                    (a ##1 !a, lv += data_in)
                    ##1 (!b[*0:$] ##1 b && (data_out == lv), v1 = lv)
                  )
                  ##1 (do1 == v1);
                endsequence
endmodule
