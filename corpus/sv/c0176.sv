module t0176;
int A[2][3][4], B[2][3][4], C[5][4];
                A[0][2] = B[1][1]; // assign a subarray composed of four ints
                A[1] = B[0];       // assign a subarray composed of three arrays of
                                   // four ints each
                A = B;             // assign an entire array
                A[0][1] = C[4];    // assign compatible subarray of four ints
endmodule
