module t0757;
checker mutex (logic [31:0] sig, event clock, output bit failure);
                  assert property (@clock $onehot0(sig))
                  failure = 1'b0; else failure = 1'b1;
                endchecker : mutex

                module m(wire [31:0] bus, logic clk);
                  logic res, scan;
                  // ...
                  mutex check_bus(bus, posedge clk, res);
                  always @(posedge clk) scan <= res;
                endmodule : m
endmodule
