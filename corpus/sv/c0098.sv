module t0098;
enum integer {IDLE, XX='x, S1='b01, S2='b10} state, next;
endmodule
