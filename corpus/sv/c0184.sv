module t0184;
int arr[2][][];
                initial begin
                  arr[0] = new [4];    // dynamic subarray arr[0] sized to length 4

                  arr[0][0] = new [2]; // legal, arr[0][n] created above for n = 0..3

                  arr[1][0] = new [2]; // illegal, arr[1] not initialized so arr[1][0] does
                                       // not exist

                  arr[0][1][1] = new[2]; // illegal, arr[0][1][1] is an int, not a dynamic
                                         // array
                end
endmodule
