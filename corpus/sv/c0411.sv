module t0411;
logic regA, regB, regC, result ;

                function logic myFunc(logic x);
                endfunction

                initial begin
                  result = regA & (regB | myFunc(regC)) ;
                end
endmodule
