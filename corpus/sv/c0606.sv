module t0606;
sequence s;
                  a ##1 b ##1 c;
                endsequence
                sequence rule;
                  @(posedge sysclk)
                  trans ##1 start_trans ##1 s ##1 end_trans;
                endsequence
endmodule
