module t0575;
initial begin
                  wait ( hierarchical_event_identifier.triggered );
                end
endmodule
