config bot;
                  design lib1.bot;
                  default liblist lib1 lib2;
                  instance bot.a1 liblist lib3;
                endconfig

                config top;
                  design lib1.top;
                  default liblist lib2 lib1;
                  instance top.bot use lib1.bot:config;
                  instance top.bot.a1 liblist lib4;
                  // ERROR - cannot set liblist for top.bot.a1 from this config
                endconfig
