module t0808;
class SimpleSum;
                  rand bit [7:0] x, y, z;
                  constraint c {z == x + y;}
                endclass
endmodule
