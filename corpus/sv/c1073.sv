primitive d_edge_ff (q, clock, data);
                  output q; reg q;
                  input clock, data;
                  table
                    // clock data q q+
                    // obtain output on rising edge of clock
                    (01) 0 : ? : 0 ;
                    (01) 1 : ? : 1 ;
                    (0?) 1 : 1 : 1 ;
                    (0?) 0 : 0 : 0 ;
                    // ignore negative edge of clock
                    (?0) ? : ? : - ;
                    // ignore data changes on steady clock
                    ? (??) : ? : - ;
                  endtable
                endprimitive
