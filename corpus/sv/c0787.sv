module t0787;
virtual class D;
                  pure constraint Test;
                endclass
endmodule
