module t0432;
byte stream[$]; // byte stream

                class Packet;
                  rand int header;
                  rand int len;
                  rand byte payload[];
                  int crc;

                  constraint G { len > 1; payload.size == len ; }

                  function void post_randomize; crc = payload.sum; endfunction
                endclass

                initial begin
                  send: begin // Create random packet and transmit
                    byte q[$];
                    Packet p = new;
                    void'(p.randomize());
                    q = {<< byte{p.header, p.len, p.payload, p.crc}}; // pack
                    stream = {stream, q};                             // append to stream
                  end

                  receive: begin // Receive packet, unpack, and remove
                    byte q[$];
                    Packet p = new;
                    {<< byte{ p.header, p.len, p.payload with [0 +: p.len], p.crc }} = stream;
                    stream = stream[ $bits(p) / 8 : $ ]; // remove packet
                  end
                end
endmodule
