module t0967;
module top ();
                  wire [8:0] a;
                  logic [7:0] b;
                  wire c, d;

                  m mm (a,b,c,d);
                  a aa (a,b);
                endmodule
endmodule
