module t0767;
checker reason_about_one_bit(bit [63:0] data1, bit [63:0] data2,
                                             event clock);
                  rand const bit [5:0] idx;
                  a1: assert property (@clock data1[idx] == data2[idx]);
                endchecker : reason_about_one_bit
endmodule
