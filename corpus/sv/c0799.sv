module t0799;
class SList;
                  rand int n;
                  rand Slist next;

                  constraint sort { n < next.n; }
                endclass
endmodule
