module driver #(parameter int delay = 30,
                                          int iterations = 256)
                               (output wire logic [0:1] out);
                  timeunit 1ns / 1ps;
                  logic [0:1] outvar;

                  assign out = outvar;

                  initial begin
                    outvar = '0;
                    for (int i = 0; i < iterations; i++)
                      #delay outvar++;
                  end
                endmodule : driver
