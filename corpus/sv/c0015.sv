module a; b #( .a(a+1)) a (); endmodule
