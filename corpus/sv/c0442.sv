module t0442;
initial begin
                  logic [15:0] a, b; // 16-bit variables
                  logic [15:0] sumA; // 16-bit variable
                  logic [16:0] sumB; // 17-bit variable

                  sumA = a + b;      // expression evaluates using 16 bits
                  sumB = a + b;      // expression evaluates using 17 bits
                end
endmodule
