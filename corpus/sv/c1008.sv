module t1008;
interface i2;
                  wire a, b, c, d;
                  modport master (input a, b, output c, d);
                  modport slave (output a, b, input c, d);
                endinterface
endmodule
