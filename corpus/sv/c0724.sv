module t0724;
property r4;
                  q != d;
                endproperty
                always @(posedge mclk) begin
                  #10 q <= d1; // delay prevents clock inference
                  @(negedge mclk) // event control prevents clock inference
                  #10 q1 <= !d1;
                  r4_p: assert property (r4); // no inferred clock
                end
endmodule
