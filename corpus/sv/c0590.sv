module t0590;
function f(bit v);
                  p: assert #0 (v);
                endfunction
                always_comb begin: myblk
                  a = b || f(c);
                end
endmodule
