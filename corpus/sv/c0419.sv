module t0419;
wire [15:0] busa = drive_busa ? data : 16'bz;
endmodule
