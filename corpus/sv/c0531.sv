module t0531;
initial begin
                  fun( .j(2), .s("yes") ); // fun( 2, "yes" );
                  fun( .s("yes") );        // fun( 1, "yes" );
                  fun( , "yes" );          // fun( 1, "yes" );
                  fun( .j(2) );            // fun( 2, "no" );
                  fun( .s("yes"), .j(2) ); // fun( 2, "yes" );
                  fun( .s(), .j() );       // fun( 1, "no" );
                  fun( 2 );                // fun( 2, "no" );
                  fun( );                  // fun( 1, "no" );
                end
endmodule
