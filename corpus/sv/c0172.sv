module t0172;
joe[9] = joe[8] + 1; // 4 byte add
                joe[7][3:2] = joe[6][1:0]; // 2 byte copy
endmodule
