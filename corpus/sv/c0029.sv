module top;
                  logic clk = 0;
                  simple_bus sb_intf(.clk(clk)); // Instantiate the interface
                  memMod mem(.a(sb_intf)); // Connect interface to module instance
                  cpuMod cpu(.b(sb_intf)); // Connect interface to module instance
                endmodule
