module t1079;
module XORgate (a, b, out);
                  input a, b;
                  output out;

                  xor x1 (out, a, b);

                  specify
                    specparam noninvrise = 1, noninvfall = 2;
                    specparam invertrise = 3, invertfall = 4;
                    if (a) (b => out) = (invertrise, invertfall);
                    if (b) (a => out) = (invertrise, invertfall);
                    if (~a)(b => out) = (noninvrise, noninvfall);
                    if (~b)(a => out) = (noninvrise, noninvfall);
                  endspecify
                endmodule
endmodule
