module t0225;
class obj_example;
                endclass

                task task1(integer a, obj_example myexample);
                  if (myexample == null) myexample = new;
                endtask
endmodule
