module t0453;
module string_test;
                  bit [8*14:1] stringvar;

                  initial begin
                    stringvar = "Hello world";
                    $display("%s is stored as %h", stringvar, stringvar);
                    stringvar = {stringvar,"!!!"};
                    $display("%s is stored as %h", stringvar, stringvar);
                  end
                endmodule
endmodule
