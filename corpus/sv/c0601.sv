module t0601;
bit a;
                integer b;
                byte q[$];

                property p1;
                  $rose(a) |-> q[0];
                endproperty

                property p2;
                  integer l_b;
                  ($rose(a), l_b = b) |-> ##[3:10] q[l_b];
                endproperty
endmodule
