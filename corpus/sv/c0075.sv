module t0075;
tri reg r;
                inout wire reg p;
endmodule
