module A(); parameter A = 1 endmodule"##,
            Some(28)
        );
    }
}

#[test]
fn debug() {
    test!(
        source_text,
        r##"module a; localparam a = (A == 1) ? 1 - 1 : (A == 1) ? 1 - 1 : 1 - 1; endmodule
