module t0732;
default clocking @(posedge clk); endclocking
                always @(a or b) begin : b1
                  a2: assert property (a == b) r.success(0); else r.error(0, a, b);
                  #1;
                  a3: assert property (a == b) r.success(1); else r.error(1, a, b);
                end
endmodule
