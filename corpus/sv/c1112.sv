module t1112;
specify
                  $setuphold (posedge clk &&& mode, data, 1, 1, ntfr);
                  $setuphold (negedge clk &&& !mode, data, 1, 1, ntfr);
                  $setuphold (edge clk, data, 1, 1, ntfr);
                endspecify
endmodule
