module t0676;
property p; (accept_on(a) p1) or (reject_on(b) p2); endproperty
endmodule
