module t0810;
class C1;
                  rand integer x;
                endclass

                class C2;
                  integer x;
                  integer y;

                  task doit(C1 f, integer x, integer z);
                    int result;
                    result = f.randomize() with {x < y + z;};
                  endtask
                endclass
endmodule
