module t0483;
initial begin
                  case (sig)
                    1'bz: $display("signal is floating");
                    1'bx: $display("signal is unknown");
                    default: $display("signal is %b", sig);
                  endcase
                end
endmodule
