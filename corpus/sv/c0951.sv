module t0951;
module generic_fifo (clk, read, write, reset, out, full, empty );
                  parameter MSB=3, LSB=0, DEPTH=4; // these parameters can be redefined
                  input [MSB:LSB] in;
                  input clk, read, write, reset;
                  output [MSB:LSB] out;
                  output full, empty;
                  wire [MSB:LSB] in;
                  wire clk, read, write, reset;
                  logic [MSB:LSB] out;
                  logic full, empty;
                endmodule
endmodule
