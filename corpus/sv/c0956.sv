module t0956;
module alu_accum2 (
                  output [15:0] dataout,
                  input [7:0] ain, bin,
                  input [2:0] opcode,
                  input clk, rst_n, rst);
                  wire [7:0] alu_out;

                  alu alu (.alu_out(alu_out), .zero(),
                           .ain(ain), .bin(bin), .opcode(opcode));
                    // zero output is unconnected

                  accum accum (.dataout(dataout[7:0]), .datain(alu_out),
                               .clk(clk));
                    // rst_n is not in the port list and so gets default value 1'b1

                  xtend xtend (.dout(dataout[15:8]), .din(alu_out[7]),
                               .clk(clk), .rst() );
                    // rst has a default value, but has an empty port connection,
                    // therefore it is left unconnected
                endmodule
endmodule
