module t0722;
property r2;
                  q != d;
                endproperty
                always_ff @(posedge clock iff reset == 0 or posedge reset) begin
                  cnt <= reset ? 0 : cnt + 1;
                  q <= $past(d1);
                  r2_p: assert property (r2);
                end
endmodule
