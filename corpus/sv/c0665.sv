module t0665;
property p1;
                  ##[0:5] done #-# always !rst;
                endproperty

                property p2;
                  ##[0:5] done #=# always !rst;
                endproperty
endmodule
