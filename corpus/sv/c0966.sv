module t0966;
extern module m (a,b,c,d);
                extern module a #(parameter size= 8, parameter type TP = logic [7:0])
                                (input [size:0] a, output TP b);

                module top ();
                  wire [8:0] a;
                  logic [7:0] b;
                  wire c, d;
                  m mm (.*);
                  a aa (.*);
                endmodule
endmodule
