module t0164;
typedef union packed { // default unsigned
                  s_atmcell acell;
                  bit [423:0] bit_slice;
                  bit [52:0][7:0] byte_slice;
                } u_atmcell;

                u_atmcell u1;
                byte b; bit [3:0] nib;
                b = u1.bit_slice[415:408]; // same as b = u1.byte_slice[51];
                nib = u1.bit_slice [423:420]; // same as nib = u1.acell.GFC;
endmodule
