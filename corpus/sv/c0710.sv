module t0710;
property abc(a, b, c);
                  disable iff (a==2) @(posedge clk) not (b ##1 c);
                endproperty
                env_prop: assert property (abc(rst, in1, in2))
                  $display("env_prop passed."); else $display("env_prop failed.");
endmodule
