module t0414;
initial begin
                  i = 10;
                  j = i++ + (i = i - 1);
                end
endmodule
