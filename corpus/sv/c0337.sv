module t0337;
always @* begin // equivalent to @(b)
                  @(i) kid = b; // i is not added to @*
                end
endmodule
