module t0431;
initial begin
                  int a, b, c;
                  logic [10:0] up [3:0];
                  logic [11:1] p1, p2, p3, p4;
                  bit [96:1] y = {>>{ a, b, c }}; // OK: pack a, b, c
                  int j = {>>{ a, b, c }};        // error: j is 32 bits < 96 bits
                  bit [99:0] d = {>>{ a, b, c }}; // OK: d is padded with 4 bits
                  {>>{ a, b, c }} = 23'b1;        // error: too few bits in stream
                  {>>{ a, b, c }} = 96'b1;        // OK: unpack a = 0, b = 0, c = 1
                  {>>{ a, b, c }} = 100'b11111;   // OK: unpack a = 0, b = 0, c = 1
                                                  // 96 MSBs unpacked, 4 LSBs truncated
                  { >> {p1, p2, p3, p4}} = up;    // OK: unpack p1 = up[3], p2 = up[2],
                                                  // p3 = up[1], p4 = up[0]
                end
endmodule
