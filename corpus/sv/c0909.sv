module t0909;
initial begin
                  if ($test$plusargs("HELLO")) $display("Hello argument found.");
                  if ($test$plusargs("HE")) $display("The HE subset string is detected.");
                  if ($test$plusargs("H")) $display("Argument starting with H found.");
                  if ($test$plusargs("HELLO_HERE")) $display("Long argument.");
                  if ($test$plusargs("HI")) $display("Simple greeting.");
                  if ($test$plusargs("LO")) $display("Does not match.");
                end
endmodule
