module t0514;
function logic [15:0] myfunc3(int a, int b, output logic [15:0] u, v);
                endfunction
endmodule
