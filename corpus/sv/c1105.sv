module t1105;
specify
                  $setuphold(posedge CLK, DATA, -10, 20);
                endspecify
endmodule
