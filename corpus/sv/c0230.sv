module t0230;
status = current_status(p);
endmodule
