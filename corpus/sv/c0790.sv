module t0790;
class c;
                  rand bit [3:0] a, b;
                  constraint c { (a == 0) -> (b == 1); }
                endclass
endmodule
