module t0987;
parameter p = 1;
                parameter [p:0] p2 = 4;
                parameter type T = int;
                parameter T p3 = 7;
endmodule
