module t0390;
initial unpackedints = '{default:2}; // sets elements to 2
endmodule
