module t1108;
specify
                  (CLK => Q) = 6;
                  $setuphold (posedge CLK, posedge D, -3, 8, , , , dCLK, dD);
                  $setuphold (posedge CLK, negedge D, -7, 13, , , , dCLK, dD);
                endspecify
endmodule
