module t0202;
int array_name1 [ integer ];
                typedef bit signed [4:1] SNibble;
                int array_name2 [ SNibble ];
                typedef bit [4:1] UNibble;
                int array_name3 [ UNibble ];
endmodule
