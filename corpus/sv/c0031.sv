module top; // module with no ports
                  logic in1, in2, select; // variable declarations
                  wire out1; // net declaration

                  mux2to1 m1 (.a(in1), .b(in2), .sel(select), .y(out1)); // module instance

                endmodule: top
