module t0734;
always_comb begin : procedural_block_1
                  if (en)
                    foo = bar;
                  end

                always_comb begin : procedural_block_2
                  p1: assert property ( @(posedge clk) (const'(foo) == const'(bar)) );
                end
endmodule
