module t0701;
property mult_p3;
                  @(posedge clk) a ##1 @(posedge clk1) s1 |=> @(posedge clk2) s2;
                endproperty
endmodule
