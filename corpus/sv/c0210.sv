module t0210;
initial begin
                  string s;
                  if ( map.first( s ) )
                    do
                      $display( "%s : %d\n", s, map[ s ] );
                    while ( map.next( s ) );
                end
endmodule
