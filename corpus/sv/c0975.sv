module t0975;
task t;
                  int x;
                  x = f(1); // valid reference to function f in $unit scope
                endtask

                function int f(int y);
                  return y+1;
                endfunction
endmodule
