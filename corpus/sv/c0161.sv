module t0161;
packet1 p1; // initialization defined by the typedef.
                            // p1.crc will use the default value for an int
endmodule
