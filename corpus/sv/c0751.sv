module t0751;
module A;
                  logic a, clk;

                  clocking cb_with_input @(posedge clk);
                    input a;
                    property p1;
                      a;
                    endproperty
                  endclocking

                  clocking cb_without_input @(posedge clk);
                    property p1;
                      a;
                    endproperty
                  endclocking

                  property p1;
                    @(posedge clk) a;
                  endproperty

                  property p2;
                    @(posedge clk) cb_with_input.a;
                  endproperty

                  a1: assert property (p1);
                  a2: assert property (cb_with_input.p1);
                  a3: assert property (p2);
                  a4: assert property (cb_without_input.p1);
                endmodule
endmodule
