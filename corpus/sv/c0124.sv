module t0124;
const logic option = a.b.c ;
endmodule
