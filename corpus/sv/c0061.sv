module t0061;
assign abc.C = sel ? 8'hDE : 8'hED;

                // Mixing continuous and procedural assignments to abc.A[3]
                always @(posedge clk) abc.A[7:3] <= !abc.B[7:3];
endmodule
