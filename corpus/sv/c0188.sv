module t0188;
initial begin
                  int j = addr.size;
                  addr = new[ addr.size() * 4 ] (addr); // quadruple addr array
                end
endmodule
