module t0628;
always @(posedge clk) begin
                  @(negedge clk2);
                  x = $past(y, 5); // illegal if not within default clocking
                end
endmodule
