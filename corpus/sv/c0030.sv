package ComplexPkg;
                  typedef struct {
                    shortreal i, r;
                  } Complex;

                  function Complex add(Complex a, b);
                    add.r = a.r + b.r;
                    add.i = a.i + b.i;
                  endfunction

                  function Complex mul(Complex a, b);
                    mul.r = (a.r * b.r) - (a.i * b.i);
                    mul.i = (a.r * b.i) + (a.i * b.r);
                  endfunction
                endpackage : ComplexPkg
