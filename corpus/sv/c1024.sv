module t1024;
interface SBus; // A Simple bus interface
                  logic req, grant;
                  logic [7:0] addr, data;
                endinterface

                class SBusTransactor; // SBus transactor class
                  virtual SBus bus; // virtual interface of type SBus

                  function new( virtual SBus s );
                    bus = s; // initialize the virtual interface
                  endfunction

                  task request(); // request the bus
                    bus.req <= 1'b1;
                  endtask

                  task wait_for_bus(); // wait for the bus to be granted
                    @(posedge bus.grant);
                  endtask
                endclass

                module devA( SBus s ); endmodule // devices that use SBus
                module devB( SBus s ); endmodule

                module top;
                  SBus s[1:4] (); // instantiate 4 interfaces
                  devA a1( s[1] ); // instantiate 4 devices
                  devB b1( s[2] );
                  devA a2( s[3] );
                  devB b2( s[4] );
                  initial begin
                    SBusTransactor t[1:4]; // create 4 bus-transactors and bind
                    t[1] = new( s[1] );
                    t[2] = new( s[2] );
                    t[3] = new( s[3] );
                    t[4] = new( s[4] );
                    // test t[1:4]
                  end
                endmodule
endmodule
