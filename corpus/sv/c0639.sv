module t0639;
sequence e2(a,b,c);
                  @(posedge sysclk) $rose(a) ##1 b ##1 c;
                endsequence
                sequence rule2;
                  @(posedge sysclk) reset ##1 inst ##1 e2(ready,proc1,proc2).triggered
                    ##1 branch_back;
                endsequence
endmodule
