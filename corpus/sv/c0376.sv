module t0376;
module multiple4;
                  logic r1;
                  logic [2:0] i;

                  initial begin
                    // makes assignments to r1 without cancelling previous assignments
                    for (i = 0; i <= 5; i++)
                      r1 <= # (i*10) i[0];
                  end
                endmodule
endmodule
