module t0236;
class C; endclass
                class D extends C; endclass
                C c = D::new; // variable c of superclass type C now references
                              // a newly constructed object of type D
endmodule
