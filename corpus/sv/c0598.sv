module t0598;
global clocking @clk; endclocking
                assert property(@($global_clock) a);
endmodule
