module t0717;
restrict property (@(posedge clk) ctr == '0);
endmodule
