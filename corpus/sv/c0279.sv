module t0279;
typedef vector#(4) Vfour;
                typedef stack#(Vfour) Stack4;
                Stack4 s1, s2; // declare objects of type Stack4
endmodule
