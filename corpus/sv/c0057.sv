module t0057;
a = b ? (* no_glitch *) c : d;
endmodule
