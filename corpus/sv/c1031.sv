module t1031;
interface ebus_i;
                  integer I; // reference to I not allowed through modport mp
                  typedef enum {Y,N} choice;
                  choice Q;
                  localparam True = 1;
                  modport mp(input Q);
                endinterface

                module Top;
                  ebus_i ebus ();
                  sub s1 (ebus.mp);
                endmodule

                module sub(interface.mp i);
                  typedef i.choice yes_no; // import type from interface
                  yes_no P;
                  assign P = i.Q;          // refer to Q with a port reference
                  initial
                    Top.ebus.Q = i.True;   // refer to Q with a hierarchical reference
                  initial
                    Top.ebus.I = 0;        // referring to i.I would not be legal because
                                           // is not in modport mp
                endmodule
endmodule
