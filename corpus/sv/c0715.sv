module t0715;
property pa1;
                  @(posedge clk) !reset_n || !req |-> !ack;
                endproperty
                property pa2;
                  @(posedge clk) ack |=> !ack;
                endproperty
endmodule
