module t1055;
module dffn (q, d, clk);
                  parameter bits = 1;
                  input [bits-1:0] d;
                  output [bits-1:0] q;
                  input clk ;

                  DFF dff[bits-1:0] (q, d, clk); // create a row of D flip-flops
                endmodule

                module MxN_pipeline (in, out, clk);
                  parameter M = 3, N = 4; // M=width,N=depth
                  input [M-1:0] in;
                  output [M-1:0] out;
                  input clk;
                  wire [M*(N-1):1] t;

                  // #(M) redefines the bits parameter for dffn
                  // create p[1:N] columns of dffn rows (pipeline)

                  dffn #(M) p[1:N] ({out, t}, {t, in}, clk);
                endmodule
endmodule
