module t0047;
c = '{a:0, b:0.0};             // member name and value for that member
                c = '{default:0};              // all elements of structure c are set to 0
                d = ab'{int:1, shortreal:1.0}; // data type and default value for all
                                               // members of that type
endmodule
