module t0154;
initial begin
                  Packet p;
                  int size;

                  size = channel[0] + 4;
                  p = Packet'( channel[0 : size - 1] ); // convert stream to Packet
                  channel = channel[ size : $ ];        // update the stream so it now
                                                        // lacks that packet
                end
endmodule
