`define msg(x,y) `"x: `\`"y`\`"`"
