module t0265;
EtherPacket ep = new; // extends BasePacket
                TokenPacket tp = new; // extends BasePacket
                GPSPacket gp = new;   // extends EtherPacket
                packets[0] = ep;
                packets[1] = tp;
                packets[2] = gp;
endmodule
