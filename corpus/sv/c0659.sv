module t0659;
a2: assert property (@clk not strong(a ##1 b));
endmodule
