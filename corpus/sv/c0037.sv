module test;
                  assign p = q;
                  initial begin
                    q = 1;
                    #1 q = 0;
                    $display(p);
                  end
                endmodule
