module t0529;
module m;
                  logic a, w;

                  task t1 (output o = a) ; // default binds to m.a
                  endtask :t1

                  task t2 (output o = b) ; // illegal, b cannot be resolved
                  endtask :t2

                  task t3 (inout io = w) ; // default binds to m.w
                  endtask :t1
                endmodule :m

                module n;
                  logic a;

                  initial begin
                    m.t1(); // same as m.t1(m.a), not m.t1(n.a);
                            // at end of task, value of t1.o is copied to m.a
                    m.t3(); // same as m.t3(m.w)
                            // value of m.w is copied to t3.io at start of task and
                            // value of t3.io is copied to m.w at end of task
                  end
                endmodule :n
endmodule
