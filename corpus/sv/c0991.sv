module t0991;
bind cpu: cpu1 fpu_props fpu_rules_1(a, b, c);
endmodule
