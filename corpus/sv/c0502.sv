module t0502;
initial begin
                  switch_bytes (old_word, new_word);
                end
endmodule
