module t0481;
initial begin
                  logic [15:0] data;
                  logic [9:0] result;
                  case (data)
                    16'd0: result = 10'b0111111111;
                    16'd1: result = 10'b1011111111;
                    16'd2: result = 10'b1101111111;
                    16'd3: result = 10'b1110111111;
                    16'd4: result = 10'b1111011111;
                    16'd5: result = 10'b1111101111;
                    16'd6: result = 10'b1111110111;
                    16'd7: result = 10'b1111111011;
                    16'd8: result = 10'b1111111101;
                    16'd9: result = 10'b1111111110;
                    default result = 'x;
                  endcase
                end
endmodule
