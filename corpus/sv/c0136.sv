module t0136;
typedef bit signed [7:0] BYTE; // equivalent to the byte type
                typedef struct packed signed {bit[3:0] a, b;} uint8;
                                               // equivalent to the byte type
endmodule
