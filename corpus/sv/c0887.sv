module t0887;
module async_array(a1,a2,a3,a4,a5,a6,a7,b1,b2,b3);
                  input a1, a2, a3, a4, a5, a6, a7 ;
                  output b1, b2, b3;
                  logic [1:7] mem[1:3]; // memory declaration for array personality
                  logic b1, b2, b3;
                  initial begin
                    // set up the personality from the file array.dat
                    $readmemb("array.dat", mem);
                    // set up an asynchronous logic array with the input
                    // and output terms expressed as concatenations
                    $async$and$array(mem,{a1,a2,a3,a4,a5,a6,a7},{b1,b2,b3});
                  end
                endmodule
endmodule
