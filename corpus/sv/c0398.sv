module t0398;
initial begin
                  typedef int AI3[1:3];
                  AI3 A3;
                  int A9[1:9];

                  A3 = '{1, 2, 3};
                  A9 = '{3{A3}};                     // illegal, A3 is wrong element type
                  A9 = '{A3, 4, 5, 6, 7, 8, 9};      // illegal, A3 is wrong element type
                  A9 = {A3, 4, 5, A3, 6};            // legal, gives A9='{1,2,3,4,5,1,2,3,6}
                  A9 = '{9{1}};                      // legal, gives A9='{1,1,1,1,1,1,1,1,1}
                  A9 = {9{1}};                       // illegal, no replication in unpacked
                                                     // array concatenation
                  A9 = {A3, {4,5,6,7,8,9} };         // illegal, {...} is not self-determined here
                  A9 = {A3, '{4,5,6,7,8,9} };        // illegal, '{...} is not self-determined
                  A9 = {A3, 4, AI3'{5, 6, 7}, 8, 9}; // legal, A9='{1,2,3,4,5,6,7,8,9}
                end
endmodule
