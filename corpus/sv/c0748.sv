module t0748;
wire clk1, clk2;
                logic a, b;
                assign clk2 = clk1;
                a1: assert property (@(clk1) a and @(clk2) b); // Illegal
                a2: assert property (@(clk1) a and @(clk1) b); // OK
                always @(posedge clk1) begin
                  a3: assert property(a and @(posedge clk2) b); //Illegal
                  a4: assert property(a and @(posedge clk1) b); // OK
                end
endmodule
