module t0117;
parameter logic [31:0] P1 [3:0] = '{ 1, 2, 3, 4 } ; // unpacked array
                                                                    // parameter declaration
endmodule
