module t0283;
class C #(int p = 1, type T = int);
                  extern static function T f();
                endclass

                function C::T C::f();
                  return p + C::p;
                endfunction

                initial $display("%0d %0d", C#()::f(),C#(5)::f()); // output is "2 10"
endmodule
