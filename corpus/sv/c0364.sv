module t0364;
wire (strong1, pull0) mynet = enable;
endmodule
