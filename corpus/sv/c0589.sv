module t0589;
always_comb begin : b1
                  c1: cover (b != a);
                  c2: cover #0 (b != a);
                end
endmodule
