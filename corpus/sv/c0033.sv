module t0033;
task t;
                  int b;
                  b = 5 + $unit::b; // $unit::b is the one outside
                endtask
endmodule
