module t0334;
always @(a, b, c, d, e);
                always @(posedge clk, negedge rstn);
                always @(a or b, c, d or e);
endmodule
