module t0974;
module a;
                  integer i;
                  b a_b1();
                endmodule

                module b;
                  integer i;
                  c b_c1(),
                  b_c2();
                  initial           // downward path references two copies of i:
                    #10 b_c1.i = 2; // a.a_b1.b_c1.i, d.d_b1.b_c1.i
                endmodule

                module c;
                  integer i;
                  initial begin // local name references four copies of i:
                    i = 1;      // a.a_b1.b_c1.i, a.a_b1.b_c2.i,
                                // d.d_b1.b_c1.i, d.d_b1.b_c2.i
                    b.i = 1;    // upward path references two copies of i:
                                // a.a_b1.i, d.d_b1.i
                  end
                endmodule

                module d;
                  integer i;
                  b d_b1();
                  initial begin // full path name references each copy of i
                    a.i = 1; d.i = 5;
                    a.a_b1.i = 2; d.d_b1.i = 6;
                    a.a_b1.b_c1.i = 3; d.d_b1.b_c1.i = 7;
                    a.a_b1.b_c2.i = 4; d.d_b1.b_c2.i = 8;
                  end
                endmodule
endmodule
