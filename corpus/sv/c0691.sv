module t0691;
property p3(p, bit b, abort);
                  (p and (1'b1 |=> p4(p, b, abort)));
                endproperty

                property p4(p, bit b, abort);
                  accept_on(b) reject_on(abort) p3(p, b, abort);
                endproperty
endmodule
