module t0702;
property mult_p6;
                  mult_s |=> mult_s;
                endproperty
endmodule
