module t0658;
a1: assert property (@clk not a ##1 b);
endmodule
