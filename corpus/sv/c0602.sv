module t0602;
bit [2:0] count;
                realtime t;

                initial count = 0;
                always @(posedge clk) begin
                  if (count == 0) t = $realtime; //capture t in a procedural context
                  count++;
                end

                property p1;
                  @(posedge clk)
                  count == 7 |-> $realtime - t < 50.5;
                endproperty

                property p2;
                  realtime l_t;
                  @(posedge clk)
                  (count == 0, l_t = $realtime) ##1 (count == 7)[->1] |->
                    $realtime - l_t < 50.5;
                endproperty
endmodule
