module t0718;
module top(input logic clk);
                  logic a,b,c;
                  property rule3;
                    @(posedge clk) a |-> b ##1 c;
                  endproperty
                  a1: assert property (rule3);
                endmodule
endmodule
