module t1088;
specify
                  (a=>out)=(2,3);
                  showcancelled out;
                  (b =>out)=(3,4);
                endspecify
endmodule
