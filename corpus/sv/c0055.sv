module t0055;
a = b + (* mode = "cla" *) c; // sets the value for the attribute mode
                                              // to be the string cla.
endmodule
