module t0490;
initial begin
                  typedef union tagged {
                    void Invalid;
                    int Valid;
                  } VInt;

                  VInt v;

                  case (v) matches
                    tagged Invalid : $display ("v is Invalid");
                    tagged Valid .n : $display ("v is Valid with value %d", n);
                  endcase
                end
endmodule
