module t0257;
class Jumbo_Packet;
                  const int max_size = 9 * 1024; // global constant
                  byte payload [];
                  function new( int size );
                    payload = new[ size > max_size ? max_size : size ];
                  endfunction
                endclass
endmodule
