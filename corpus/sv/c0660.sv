module t0660;
let ready_exp = (irdy == 0) && ($fell(trdy) || $fell(stop));
                property data_end;
                  @(posedge mclk)
                  $rose(data_phase) |-> ##[1:5] ready_exp;
                endproperty
                a1: assert property(data_end);
endmodule
