package p;
                  function void f();
                    $display("p::f");
                  endfunction
                endpackage

                module top;
                  import p::*;
                  if (1) begin : b // generate block
                    initial f(); // reference to “f”
                    function void f();
                      $display("top.b.f");
                    endfunction
                  end
                endmodule
