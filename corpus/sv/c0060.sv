module t0060;
assign abc.C = sel ? 8'hBE : 8'hEF;

                not (abc.A[0],abc.B[0]),
                    (abc.A[1],abc.B[1]),
                    (abc.A[2],abc.B[2]),
                    (abc.A[3],abc.B[3]);

                always @(posedge clk) abc.B <= abc.B + 1;
endmodule
