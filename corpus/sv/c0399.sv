module t0399;
initial begin
                  string S, hello;
                  string SA[2];
                  byte B;
                  byte BA[2];

                  hello = "hello";

                  S = {hello, " world"};  // string concatenation: "hello world"
                  SA = {hello, " world"}; // array concatenation:
                                          // SA[0]="hello", SA[1]=" world"

                  B = {4'h6, 4'hf};       // vector concatenation: B=8'h6f
                  BA = {4'h6, 4'hf};      // array concatenation: BA[0]=8'h06, BA[1]=8'h0f
                end
endmodule
