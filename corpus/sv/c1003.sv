module t1003;
module memMod (simple_bus sb_intf, input logic clk);
                endmodule

                module cpuMod (simple_bus sb_intf, input logic clk);
                endmodule

                module top;
                  logic clk = 0;

                  simple_bus sb_intf();

                  memMod mem (.*); // implicit port connections
                  cpuMod cpu (.*); // implicit port connections
                endmodule
endmodule
