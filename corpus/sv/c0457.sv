package pex_gen9_common_expressions;
                  let valid_arb(request, valid, override) = |(request & valid) || override;
                endpackage

                module my_checker;
                  import pex_gen9_common_expressions::*;
                  logic a, b;
                  wire [1:0] req;
                  wire [1:0] vld;
                  logic ovr;
                  initial begin
                    if (valid_arb(.request(req), .valid(vld), .override(ovr))) begin
                    end
                  end
                endmodule
