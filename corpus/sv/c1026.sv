module t1026;
interface SyncBus( input logic clk );
                  wire a, b, c;
                  clocking sb @(posedge clk);
                    input a;
                    output b;
                    inout c;
                  endclocking
                endinterface

                typedef virtual SyncBus VI; // A virtual interface type

                task do_it( VI v ); // handles any SyncBus via clocking sb
                  if( v.sb.a == 1 )
                    v.sb.b <= 0;
                  else
                    v.sb.c <= ##1 1;
                endtask
endmodule
