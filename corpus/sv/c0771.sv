module t0771;
checker check;
                  bit a;
                endchecker

                module m;
                  check my_check;
                  wire x = my_check.a; // Illegal
                  bit y;
                  always @(posedge clk) begin
                    my_check.a = y; // Illegal
                  end
                endmodule
endmodule
