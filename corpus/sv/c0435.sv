module t0435;
initial begin
                  q = {<<byte{p}};
                end
endmodule
