module t1083;
specify
                  if (reset)
                    (posedge clk => (q[3:0]:data)) = (10,5);
                  if (!reset)
                    (posedge clk => (q[0]:data)) = (15,8);
                endspecify
endmodule
