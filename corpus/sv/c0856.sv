module t0856;
int i,j;
                covergroup ct;
                  coverpoint i { bins i[] = { [0:1] }; }
                  coverpoint j { bins j[] = { [0:1] }; }
                  x1: cross i,j;
                  x2: cross i,j {
                    bins i_zero = binsof(i) intersect { 0 };
                  }
                endgroup
endmodule
