module t0540;
program test( input phi1, input [15:0] data, output logic write,
                  input phi2, inout [8:1] cmd, input enable
                );
                  reg [8:1] cmd_reg;

                  clocking cd1 @(posedge phi1);
                    input data;
                    output write;
                    input state = top.cpu1.state;
                  endclocking

                  clocking cd2 @(posedge phi2);
                    input #2 output #4ps cmd;
                    input enable;
                  endclocking

                  initial begin
                    // program begins here
                    // user can access cd1.data , cd2.cmd , etc…
                  end
                  assign cmd = enable ? cmd_reg: 'x;
                endprogram
endmodule
