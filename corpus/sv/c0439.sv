module t0439;
logic [7:0] mem_name[0:1023];
endmodule
