module t0708;
property p;
                  logic v = e;
                  (@(posedge clk1) (a == v)[*1:$] |-> b)
                  and
                  (@(posedge clk2) c[*1:$] |-> d == v)
                  ;
                endproperty
                a1: assert property (@(posedge clk) f |=> p);
endmodule
