module t0985;
module tb3;

                  // declarations & code

                  // legal mixture of instance with positional parameters and
                  // another instance with named parameters

                  vdff #(10, 15) mod_a (.out(out_a), .in(in_a), .clk(clk));
                  vdff mod_b (.out(out_b), .in(in_b), .clk(clk));
                  vdff #(.delay(12)) mod_c (.out(out_c), .in(in_c), .clk(clk));
                endmodule
endmodule
