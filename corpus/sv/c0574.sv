module t0574;
initial begin
                  @ hierarchical_event_identifier;
                end
endmodule
