`define max(a,b)((a) > (b) ? (a) : (b))
