module t1022;
interface simple_bus (input logic clk); // Define the interface
                  logic req, gnt;
                  logic [7:0] addr, data;
                  logic [1:0] mode;
                  logic start, rdy;
                  int slaves = 0;

                  // tasks executed concurrently as a fork-join block
                  extern forkjoin task countSlaves();
                  extern forkjoin task Read (input logic [7:0] raddr);
                  extern forkjoin task Write (input logic [7:0] waddr);

                  modport slave (input req,addr, mode, start, clk,
                                 output gnt, rdy,
                                 ref data, slaves,
                                 export Read, Write, countSlaves);
                    // export from module that uses the modport

                  modport master ( input gnt, rdy, clk,
                                   output req, addr, mode, start,
                                   ref data,
                                   import task Read(input logic [7:0] raddr),
                                          task Write(input logic [7:0] waddr));
                    // import requires the full task prototype

                  initial begin
                    slaves = 0;
                    countSlaves;
                    $display ("number of slaves = %d", slaves);
                  end
                endinterface: simple_bus

                module memMod #(parameter int minaddr=0, maxaddr=0) (interface a);
                  logic avail = 1;
                  logic [7:0] mem[255:0];

                  task a.countSlaves();
                    a.slaves++;
                  endtask

                  task a.Read(input logic [7:0] raddr); // Read method
                    if (raddr >= minaddr && raddr <= maxaddr) begin
                      avail = 0;
                      #10 a.data = mem[raddr];
                      avail = 1;
                    end
                  endtask

                  task a.Write(input logic [7:0] waddr); // Write method
                    if (waddr >= minaddr && waddr <= maxaddr) begin
                      avail = 0;
                      #10 mem[waddr] = a.data;
                      avail = 1;
                    end
                  endtask
                endmodule

                module cpuMod(interface b);
                  typedef enum {read, write} instr;
                  instr inst;
                  logic [7:0] raddr;
                  integer seed;

                  always @(posedge b.clk) begin
                    inst = instr'($dist_uniform(seed, 0, 1));
                    raddr = $dist_uniform(seed, 0, 3);
                    if (inst == read) begin
                      $display("%t begin read %h @ %h", $time, b.data, raddr);
                      callr:b.Read(raddr);
                      $display("%t end read %h @ %h", $time, b.data, raddr);
                    end
                    else begin
                      $display("%t begin write %h @ %h", $time, b.data, raddr);
                      b.data = raddr;
                      callw:b.Write(raddr);
                      $display("%t end write %h @ %h", $time, b.data, raddr);
                    end
                  end
                endmodule

                module top;
                  logic clk = 0;

                  function void interrupt();
                    disable mem1.a.Read; // task via module instance
                    disable sb_intf.Write; // task via interface instance
                    if (mem1.avail == 0) $display ("mem1 was interrupted");
                    if (mem2.avail == 0) $display ("mem2 was interrupted");
                  endfunction

                  always #5 clk++;

                  initial begin
                    #28 interrupt();
                    #10 interrupt();
                    #100 $finish;
                  end

                  simple_bus sb_intf(clk);

                  memMod #(0, 127) mem1(sb_intf.slave);
                  memMod #(128, 255) mem2(sb_intf.slave);
                  cpuMod cpu(sb_intf.master);
                endmodule
endmodule
