module t0496;
initial begin
                  for ( int count = 0; count < 3; count++ )
                    value = value +((a[count]) * (count+1));

                  for ( int count = 0, done = 0, j = 0; j * count < 125; j++, count++)
                    $display("Value j = %d\n", j );
                end
endmodule
