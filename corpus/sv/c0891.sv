module t0891;
module disp;
                  initial begin
                    $display("\\\t\\\n\"\123");
                  end
                endmodule
endmodule
