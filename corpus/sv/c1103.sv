module t1103;
specify
                  $setup( data, posedge clk &&& clr_and_set, 10 );
                endspecify
endmodule
