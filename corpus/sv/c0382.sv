module t0382;
logic [0:5] a;
                logic signed [0:4] b, c;

                initial begin
                  a = 8'sh8f; // After the assignment, a = 6'h0f
                  b = 8'sh8f; // After the assignment, b = 5'h0f
                  c = -113;   // After the assignment, c = 15
                              // 1000_1111 = (-'h71 = -113) truncates to ('h0F = 15)
                end
endmodule
