module t0586;
initial begin
                  assert (myfunc(a,b)) count1 = count + 1; else ->event1;
                  assert (y == 0) else flag = 1;
                end
endmodule
