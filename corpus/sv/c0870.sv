module t0870;
covergroup gt ( int l, h);
                  coverpoint a { bins b[] = { [l:h] }; }
                endgroup
                gt gv1 = new (0,1);
                gt gv2 = new (1,2);
endmodule
