module t0812;
class C;
                  rand integer x;
                endclass

                function int F(C obj, integer x);
                  F = obj.randomize() with { x < local::x; };
                endfunction
endmodule
