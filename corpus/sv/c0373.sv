module t0373;
module multiple;
                  logic a;
                  initial a = 1;
                    // The assigned value of the variable is determinate

                  initial begin
                    a <= #4 0; // schedules a = 0 at time 4
                    a <= #4 1; // schedules a = 1 at time 4
                  end          // At time 4, a = 1
                endmodule
endmodule
