module t0957;
module test;
                  A ia ( .i (a), .i (b), // illegal connection of input port twice
                         .o (c), .o (d), // illegal connection of output port twice
                         .e (e), .e (f)); // illegal connection of inout port twice
                endmodule

                module A (input i, output o, inout e);
                endmodule
endmodule
