module t0045;
typedef struct {int a; shortreal b;} ab;
                ab c;
                c = '{0, 0.0}; // structure literal type determined from
                               // the left-hand context (c)
endmodule
