module t0829;
initial begin
                  randsequence()
                    PUSH_OPER : repeat( $urandom_range( 2, 6 ) ) PUSH ;
                  endsequence
                end
endmodule
