module t0509;
initial
                  my_task (v, w, x, y, z);
endmodule
