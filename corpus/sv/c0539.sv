module t0539;
clocking mem @(clock);
                  input instruction = { opcode, regA, regB[3:1] };
                endclocking
endmodule
