module t0348;
initial begin
                  fork // data shift
                    a = @(posedge clk) b;
                    b = @(posedge clk) c;
                  join
                end
endmodule
