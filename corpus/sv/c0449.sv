module t0449;
logic [15:0] a;
                logic signed [7:0] b;

                initial
                  a = b[7:0]; // b[7:0] is unsigned and therefore zero-extended
endmodule
