module t0333;
initial begin
                  @(trig or enable) rega = regb; // controlled by trig or enable

                  @(posedge clk_a or posedge clk_b or trig) rega = regb;
                end
endmodule
