package p;
                  struct { int x; } s1;
                  struct { int x; } s2;
                  function void f();
                    int x;
                  endfunction
                endpackage

                module m;
                  import p::*;
                  if (1) begin : s1
                    initial begin
                      s1.x = 1; // dotted name 1
                      s2.x = 1; // dotted name 2
                      f.x = 1;  // dotted name 3
                      f2.x = 1; // dotted name 4
                    end
                    int x;
                    some_module s2();
                  end
                endmodule
