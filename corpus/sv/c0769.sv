module t0769;
checker data_legal(start_ev, end_ev, in_data, out_data);
                  rand const bit [$bits(in_data)-1:0] mem_data;
                  sequence transaction;
                    start_ev && (in_data == mem_data) ##1 end_ev[->1];
                  endsequence
                  a1: assert property (@clock transaction |-> out_data == mem_data);
                endchecker : data_legal
endmodule
