module t1089;
specify
                  showcancelled out;
                  pulsestyle_ondetect out;
                  (a => out) = (2,3);
                  (b => out) = (4,5);
                  showcancelled out_b;
                  pulsestyle_ondetect out_b;
                  (a => out_b) = (3,4);
                  (b => out_b) = (5,6);
                endspecify

                specify
                  showcancelled out,out_b;
                  pulsestyle_ondetect out,out_b;
                  (a => out) = (2,3);
                  (b => out) = (4,5);
                  (a => out_b) = (3,4);
                  (b => out_b) = (5,6);
                endspecify
endmodule
