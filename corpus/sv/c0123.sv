module RAM16GEN ( output [7:0] DOUT,
                                  input [7:0] DIN,
                                  input [5:0] ADR,
                                  input WE, CE);
                  specparam dhold = 1.0;
                  specparam ddly = 1.0;
                  parameter width = 1;
                  parameter regsize = dhold + 1.0; // Illegal - cannot assign
                                                   // specparams to parameters
                endmodule
