module t0804;
class B1;
                  rand int x;
                  constraint a { soft x > 10 ; soft x < 100 ; }
                endclass /* a1 */ /* a2 */
                class D1 extends B1;
                  constraint b { soft x inside {[5:9]} ; }
                endclass /* b1 */
                class B2;
                  rand int y;
                  constraint c { soft y > 10 ; }
                endclass /* c1 */
                class D2 extends B2;
                  constraint d { soft y inside {[5:9]} ; }
                  constraint e ; /* d1 */
                  rand D1 p1;
                  rand B1 p2;
                  rand D1 p3;
                  constraint f { soft p1.x < p2.x ; }
                endclass /* f1 */
                constraint D2::e { soft y > 100 ; }
                /* e1 */
                D2 d = new();
                initial begin
                  d.randomize() with { soft y inside {10,20,30} ; soft y < p1.x ; };
                end /* i1 */ /* i2 */
endmodule
