module t0828;
initial begin
                  randsequence()
                    SELECT : case ( device & 7 )
                      0       : NETWORK ;
                      1, 2    : DISK ;
                      default : MEMORY ;
                    endcase ;
                  endsequence
                end
endmodule
