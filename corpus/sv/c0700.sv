module t0700;
property mult_p2;
                  mult_s;
                endproperty
endmodule
