module t0165;
typedef union tagged {
                  void Invalid;
                  int Valid;
                } VInt;
endmodule
