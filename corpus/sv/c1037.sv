package p;
                  function int f();
                    return 1;
                  endfunction
                endpackage

                module top;
                  int x;
                  if (1) begin : b
                    initial x = f(); // line 2
                    import p::*;     // line 3
                  end

                  function int f();
                    return 1;
                  endfunction
                endmodule
