module t0803;
class Packet;
                  rand bit mode;
                  rand int length;
                  constraint deflt {
                    soft length inside {32,1024};
                    soft mode -> length == 1024;
                    // Note: soft mode -> {length == 1024;} is not legal syntax,
                    // as soft must be followed by an expression
                  }
                endclass

                initial begin
                  Packet p = new();
                  p.randomize() with { length == 1512;};            // mode will randomize to 0
                  p.randomize() with { length == 1512; mode == 1;}; // mode will randomize to 1
                end
endmodule
