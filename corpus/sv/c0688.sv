module t0688;
property illegal_recursion_4(p);
                  p and (1'b1 |-> illegal_recursion_4(p));
                endproperty
endmodule
