module t0493;
initial begin
                  case (instr) matches
                    tagged Add s: case (s) matches
                                    '{.*, .*, 0} : ; // no op
                                    '{.r1, .r2, .rd} : rf[rd] = rf[r1] + rf[r2];
                                  endcase
                    tagged Jmp .j: case (j) matches
                                     tagged JmpU .a : pc = pc + a;
                                     tagged JmpC '{.c, .a} : if (rf[c]) pc = a;
                                   endcase
                  endcase
                end
endmodule
