module t0204;
initial begin
                  int a[int] = '{default:1};
                  typedef struct { int x=1,y=2; } xy_t;
                  xy_t b[int];

                  begin
                    a[1]++;
                    b[2].x = 5;
                  end
                end
endmodule
