module t0517;
initial begin
                  a = b + myfunc1(c, d); // call myfunc1 (defined above) as an expression

                  myprint(a);            // call myprint (defined below) as a statement
                end

                function void myprint (int a);
                endfunction
endmodule
