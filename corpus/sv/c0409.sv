module t0409;
initial begin
                  int IntA;
                  IntA = -12 / 3;      // The result is -4

                  IntA = -'d 12 / 3;   // The result is 1431655761

                  IntA = -'sd 12 / 3;  // The result is -4

                  IntA = -4'sd 12 / 3; // -4'sd12 is the negative of the 4-bit
                                       // quantity 1100, which is -4. -(-4) = 4
                                       // The result is 1
                end
endmodule
