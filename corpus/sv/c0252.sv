module t0252;
LinkedPacket lp = new;
                Packet p = lp;
endmodule
