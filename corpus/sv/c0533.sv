module t0533;
virtual class C#(parameter DECODE_W, parameter ENCODE_W = $clog2(DECODE_W));
                  static function logic [ENCODE_W-1:0] ENCODER_f
                        (input logic [DECODE_W-1:0] DecodeIn);
                    ENCODER_f = '0;
                    for (int i=0; i<DECODE_W; i++) begin
                      if(DecodeIn[i]) begin
                        ENCODER_f = i[ENCODE_W-1:0];
                        break;
                      end
                    end
                  endfunction
                  static function logic [DECODE_W-1:0] DECODER_f
                        (input logic [ENCODE_W-1:0] EncodeIn);
                    DECODER_f = '0;
                    DECODER_f[EncodeIn] = 1'b1;
                  endfunction
                endclass
endmodule
