module t0293;
typedef interface class IntfD;

                class ClassB implements IntfD #(bit); // illegal
                  virtual function bit[1:0] funcD();
                  endfunction
                endclass : ClassB

                // This interface class declaration must be declared before ClassB
                interface class IntfD #(type T1 = logic);
                  typedef T1[1:0] T2;
                  pure virtual function T2 funcD();
                endclass : IntfD
endmodule
