module t0125;
const class_name object = new(5,3);
endmodule
