module t0266;
initial begin
                  packets[1].send();
                end
endmodule
