module t0682;
property prop_weak_until(p,q);
                  q or (p and (1'b1 |=> prop_weak_until(p,q)));
                endproperty
endmodule
