module t0105;
typedef enum {NO, YES} boolean;
                boolean myvar; // named type
endmodule
