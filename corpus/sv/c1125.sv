module secret (a, b);
                  input a;
                  output b;

                  `pragma protect encoding=(enctype="raw")
                  `pragma protect data_method="x-caesar", data_keyname="rot13", begin
                  `pragma protect
                  runtime_license=(library="lic.so",feature="runSecret",entry="chk", match=42)
                    logic b;
                    initial
                      begin
                        b = 0;
                      end

                    always
                      begin
                        #5 b = a;
                      end
                  `pragma protect end
                endmodule // secret
