module t0524;
function automatic int crc( ref byte packet [1000:1] );
                  for( int j= 1; j <= 1000; j++ ) begin
                    crc ^= packet[j];
                  end
                endfunction
endmodule
