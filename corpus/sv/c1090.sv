module t1090;
specify
                  $setuphold( posedge clk, data, tSU, tHLD );
                endspecify
endmodule
