module t0906;
initial begin
                  integer errno ;
                  errno = $ferror ( fd, str );
                end
endmodule
