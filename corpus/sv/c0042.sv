module t0042;
bit [8*12:1] stringvar = "Hello world\n";
endmodule
