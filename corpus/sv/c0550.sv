module t0550;
module top;
                  logic clk1, clk2;
                  global clocking sys @(clk1 or clk2); endclocking
                endmodule
endmodule
