module t0726;
default clocking @(posedge clk); endclocking
                generate for (genvar i=0; i<10; i++) begin
                  a1: assert property (foo[10] && bar[10]);
                  a2: assert property (foo[i] && bar[10]);
                  a3: assert property (foo[i] && bar[i]);
                end
                endgenerate
endmodule
