module t0245;
p1 = new;
endmodule
