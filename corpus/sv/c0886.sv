module t0886;
wire a1, a2, a3, a4, a5, a6, a7;
                logic b1, b2, b3;
                wire [1:7] awire;
                logic [1:3] breg;

                initial begin
                  $async$and$array(mem,{a1,a2,a3,a4,a5,a6,a7},{b1,b2,b3});
                end
endmodule
