module t0671;
property p1;
                  s_eventually a;
                endproperty

                property p2;
                  s_eventually always a;
                endproperty

                property p3;
                  always s_eventually a;
                endproperty

                property p4;
                  eventually [2:5] a;
                endproperty

                property p5;
                  s_eventually [2:5] a;
                endproperty

                //property p6;
                //  eventually [2:$] a; // Illegal
                //endproperty

                property p7;
                  s_eventually [2:$] a;
                endproperty
endmodule
