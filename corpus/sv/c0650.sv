module t0650;
sequence seq2a;
                  int v1; c ##1 sub_seq2(v1).triggered ##1 (do1 == v1);
                  // v1 is now bound to lv
                endsequence
endmodule
