module t0681;
property p1(s,p);
                  s |=> prop_always(p);
                endproperty
endmodule
