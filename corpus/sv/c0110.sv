module t0110;
typedef enum {Red, Green, Blue} Colors;
                typedef enum {Mo,Tu,We,Th,Fr,Sa,Su} Week;
                Colors C;
                Week W;
                int I;

                C = Colors'(C+1);            // C is converted to an integer, then added to
                                             // one, then converted back to a Colors type

                C = Colors'(Su);             // Legal; puts an out of range value into C

                I = C + W;                   // Legal; C and W are automatically cast to int
endmodule
