module top();
                  interconnect [0:3] [0:1] aBus;
                  logic [0:3] dBus;
                  driver driverArray[0:3](aBus);
                  cmp cmpArray[0:3](aBus,rst,dBus);
                endmodule : top
