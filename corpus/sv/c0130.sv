module t0130;
struct packed {int A; int B;} AB1, AB2; // AB1, AB2 have matching types
                struct packed {int A; int B;} AB3; // the type of AB3 does not match
                                                   // the type of AB1
endmodule
