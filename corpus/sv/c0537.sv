module t0537;
clocking dram @(clk);
                  input #1ps address;
                  input #5 output #6 data;
                endclocking
endmodule
