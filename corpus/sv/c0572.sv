module t0572;
initial begin
                  mailbox mbxRcv;
                end
endmodule
