module t0478;
always_comb begin
                  not_a = !a;
                end

                always_comb begin : a1
                  u1: unique if (a)
                    z = a | b;
                  else if (not_a)
                    z = a | c;
                end
endmodule
