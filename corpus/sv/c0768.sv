module t0768;
checker reason_about_all_bit(bit [63:0] data1, bit [63:0] data2,
                                             event clock);
                  a1: assert property (@clock data1 == data2);
                endchecker : reason_about_all_bit
endmodule
