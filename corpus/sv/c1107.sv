module t1107;
specify
                  $setuphold(posedge CLK, DATA1, -10, 20,,,, del_CLK, del_DATA1);
                  $setuphold(posedge CLK, DATA2, -15, 18);
                endspecify
endmodule
