module t0690;
property fibonacci2 (int a, b, n, fib_sig);
                  (n > 0)
                  |->
                  (
                    (fib_sig == a)
                    and
                    (1'b1 |=> fibonacci2(b, a + b, n - 1, fib_sig))
                  );
                endproperty
endmodule
