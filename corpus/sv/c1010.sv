module t1010;
module m (i2 i);
                endmodule

                module s (i2 i);
                endmodule

                module top;
                  i2 i();
                  m u1(.i(i.master));
                  s u2(.i(i.slave));
                endmodule
endmodule
