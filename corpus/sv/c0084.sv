module t0084;
chandle variable_name ;
endmodule
