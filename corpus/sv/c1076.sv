module t1076;
module flip;
                  reg clock, data;
                  parameter p1 = 10;
                  parameter p2 = 33;
                  parameter p3 = 12;

                  d_edge_ff #p3 d_inst (q, clock, data);

                  initial begin
                    data = 1;
                    clock = 1;
                    #(20 * p1) $finish;
                  end

                  always #p1 clock = ~clock;
                  always #p2 data = ~data;
                endmodule
endmodule
