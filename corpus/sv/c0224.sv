module t0224;
Packet p; // declare a variable of class Packet
                p = new;  // initialize variable to a new allocated object
                          // of the class Packet
endmodule
