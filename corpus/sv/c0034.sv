module D;
                  timeunit 100ps;
                  timeprecision 10fs;
                endmodule
