module t0753;
checker my_check2 (logic a, b);
                  a1: assert #0 ($onehot0({a, b}));
                  c1: cover #0 (a == 0 && b == 0);
                  c2: cover #0 (a == 1);
                  c3: cover #0 (b == 1);
                endchecker : my_check2
endmodule
