module t0525;
initial begin
                  byte packet1[1000:1];
                  int k = crc( packet1 ); // pass by value or by reference: call is the same
                end
endmodule
