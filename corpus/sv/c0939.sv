module t0939;
module split_ports (a[7:4], a[3:0]);
                  // First port is upper 4 bits of 'a'.
                  // Second port is lower 4 bits of 'a'.
                  // Cannot use named port connections because
                  // of part-select port 'a'.
                endmodule
endmodule
