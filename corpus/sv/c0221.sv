module t0221;
initial begin
                  byte b[] = { 1, 2, 3, 4 };
                  int y;
                  y = b.sum ;                  // y becomes 10 => 1 + 2 + 3 + 4
                  y = b.product ;              // y becomes 24 => 1 * 2 * 3 * 4
                  y = b.xor with ( item + 4 ); // y becomes 12 => 5 ^ 6 ^ 7 ^ 8
                end

                initial begin
                  logic [7:0] m [2][2] = '{ '{5, 10}, '{15, 20} };
                  int y;
                  y = m.sum with (item.sum with (item)); // y becomes 50 => 5+10+15+20
                end

                initial begin
                  logic bit_arr [1024];
                  int y;
                  y = bit_arr.sum with ( int'(item) );   // forces result to be 32-bit
                end
endmodule
