module t0908;
initial $readmemh("mem.data", mem);
                initial $readmemh("mem.data", mem, 16);
                initial $readmemh("mem.data", mem, 128, 1);
endmodule
