module t0618;
sequence sub_seq2(local inout int lv);
                  (a ##1 !a, lv += data_in)
                  ##1 !b[*0:$] ##1 b && (data_out == lv);
                endsequence
                sequence seq2;
                  int v1;
                  (c, v1 = data)
                  ##1 sub_seq2(v1) // lv is initialized by assigning it the value of v1;
                                   // when the instance sub_seq2(v1) matches, v1 is
                                   // assigned the value of lv
                  ##1 (do1 == v1);
                endsequence
endmodule
