module t0153;
typedef byte channel_type[$];
                channel_type channel;
                channel = {channel, channel_type'(genPkt())};
endmodule
