module t0573;
initial begin
                  typedef mailbox #(string) s_mbox;

                  s_mbox sm = new;
                  string s;

                  sm.put( "hello" );
                  sm.get( s ); // s <- "hello"
                end
endmodule
