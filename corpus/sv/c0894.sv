module t0894;
always
                  #15 $display($time,,"group=%b signals=%v %v %v",{s1,s2,s3},s1,s2,s3);
endmodule
