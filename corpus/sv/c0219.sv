module t0219;
initial begin
                  string SA[10], qs[$];
                  int IA[int], qi[$];

                  // Find all items greater than 5
                  qi = IA.find( x ) with ( x > 5 );
                  qi = IA.find( x ); // shall be an error

                  // Find indices of all items equal to 3
                  qi = IA.find_index with ( item == 3 );

                  // Find first item equal to Bob
                  qs = SA.find_first with ( item == "Bob" );

                  // Find last item equal to Henry
                  qs = SA.find_last( y ) with ( y == "Henry" );

                  // Find index of last item greater than Z
                  qi = SA.find_last_index( s ) with ( s > "Z" );

                  // Find smallest item
                  qi = IA.min;

                  // Find string with largest numerical value
                  qs = SA.max with ( item.atoi );

                  // Find all unique string elements
                  qs = SA.unique;

                  // Find all unique strings in lowercase
                  qs = SA.unique( s ) with ( s.tolower );
                end
endmodule
