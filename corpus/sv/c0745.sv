module t0745;
clocking master_clk @(posedge clk);
                  property p3; not (a ##2 b); endproperty
                endclocking
                assert property (master_clk.p3);
endmodule
