module t1002;
interface simple_bus; // Define the interface
                  logic req, gnt;
                  logic [7:0] addr, data;
                  logic [1:0] mode;
                  logic start, rdy;
                endinterface: simple_bus

                module memMod(simple_bus a, // Access the simple_bus interface
                              input logic clk);
                  logic avail;
                  // When memMod is instantiated in module top, a.req is the req
                  // signal in the sb_intf instance of the 'simple_bus' interface
                  always @(posedge clk) a.gnt <= a.req & avail;
                endmodule

                module cpuMod(simple_bus b, input logic clk);
                endmodule

                module top;
                  logic clk = 0;
                  simple_bus sb_intf(); // Instantiate the interface
                  memMod mem(sb_intf, clk); // Connect the interface to the module instance
                  cpuMod cpu(.b(sb_intf), .clk(clk)); // Either by position or by name
                endmodule
endmodule
