module t0883;
module test #(N = 1) (input [N-1:0] in, output [N-1:0] out);
                  if ((N < 1) || (N > 8)) // conditional generate construct
                    $error("Parameter N has an invalid value of %0d", N);
                  assign out = in;
                endmodule
endmodule
