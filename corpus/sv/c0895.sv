module t0895;
module top;
                  typedef enum {ON, OFF} switch_e;
                  typedef struct {switch_e sw; string s;} pair_t;
                  pair_t va[int] = '{10:'{OFF, "switch10"}, 20:'{ON, "switch20"}};

                  initial begin
                    $display("va[int] = %p;",va);
                    $display("va[int] = %0p;",va);
                    $display("va[10].s = %p;", va[10].s);
                  end
                endmodule : top
endmodule
