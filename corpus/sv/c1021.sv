module t1021;
interface simple_bus (input logic clk); // Define the interface
                  logic req, gnt;
                  logic [7:0] addr, data;
                  logic [1:0] mode;
                  logic start, rdy;

                  modport slave( input req, addr, mode, start, clk,
                                 output gnt, rdy,
                                 ref data,
                                 export Read,
                                        Write);
                    // export from module that uses the modport

                  modport master(input gnt, rdy, clk,
                                 output req, addr, mode, start,
                                 ref data,
                                 import task Read(input logic [7:0] raddr),
                                        task Write(input logic [7:0] waddr));
                    // import requires the full task prototype
                endinterface: simple_bus

                module memMod(interface a); // Uses just the interface keyword
                  logic avail;

                  task a.Read; // Read method
                    avail = 0;
                    avail = 1;
                  endtask

                  task a.Write;
                    avail = 0;
                    avail = 1;
                  endtask
                endmodule

                module cpuMod(interface b);
                  enum {read, write} instr;
                  logic [7:0] raddr;

                  always @(posedge b.clk)
                    if (instr == read)
                      b.Read(raddr); // call the slave method via the interface
                    else
                      b.Write(raddr);
                endmodule

                module top;
                  logic clk = 0;
                  simple_bus sb_intf(clk); // Instantiate the interface
                  memMod mem(sb_intf.slave); // exports the Read and Write tasks
                  cpuMod cpu(sb_intf.master); // imports the Read and Write tasks
                endmodule
endmodule
