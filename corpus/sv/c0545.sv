module t0545;
initial begin
                  @(dram);
                end
endmodule
