module t0455;
initial begin
                  a = (a:b:c) + (d:e:f);
                end
endmodule
