module t0942;
module same_input (a,a);
                  input a; // This is legal. The inputs are tied together.
                endmodule
endmodule
