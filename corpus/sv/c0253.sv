module t0253;
class Packet;
                  integer i = 1;
                  function integer get();
                    get = i;
                  endfunction
                endclass

                class LinkedPacket extends Packet;
                  integer i = 2;
                  function integer get();
                    get = -i;
                  endfunction
                endclass

                initial begin
                  LinkedPacket lp = new;
                  Packet p = lp;
                  j = p.i;     // j = 1, not 2
                  j = p.get(); // j = 1, not -1 or –2
                end
endmodule
