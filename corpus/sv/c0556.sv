module t0556;
initial begin
                  @(ram_bus);
                end
endmodule
