module t0611;
cover property (x ##2 y[*3:$] ##1 z);
endmodule
