module test(); specify $setuphold(posedge A &&& B, BL_0 , 0, 0, C,,,D, BL_X[0]); endspecify endmodule
