module t0936;
typedef struct {
                  bit isfloat;
                  union { int i; shortreal f; } n;
                } tagged_st; // named structure

                module mh1 (input var int in1,
                            input var shortreal in2,
                            output tagged_st out);
                endmodule
endmodule
