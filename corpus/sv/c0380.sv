module t0380;
module test;
                  logic a, b, c, d;
                  wire e;

                  and and1 (e, a, b, c);

                  initial begin
                    $monitor("%d d=%b,e=%b", $stime, d, e);
                    assign d = a & b & c;
                    a = 1;
                    b = 0;
                    c = 1;
                    #10;
                    force d = (a | b | c);
                    force e = (a | b | c);
                    #10;
                    release d;
                    release e;
                    #10 $finish;
                  end
                endmodule
endmodule
