module test;
                  `ifdef first_block
                    `ifndef second_nest
                      initial $display("first_block is defined");
                    `else
                      initial $display("first_block and second_nest defined");
                    `endif
                  `elsif second_block
                    initial $display("second_block defined, first_block is not");
                  `else
                    `ifndef last_result
                      initial $display("first_block, second_block,",
                        " last_result not defined.");
                    `elsif real_last
                      initial $display("first_block, second_block not defined,",
                        " last_result and real_last defined.");
                    `else
                      initial $display("Only last_result defined!");
                    `endif
                  `endif
                endmodule
