module t1069;
module capacitor;
                  logic data, gate;

                  // trireg declaration with a charge decay time of 50 time units
                  trireg (large) #(0,0,50) cap1;

                  nmos nmos1 (cap1, data, gate); // nmos that drives the trireg

                  initial begin
                    $monitor("%0d data=%v gate=%v cap1=%v", $time, data, gate, cap1);
                    data = 1;
                    // Toggle the driver of the control input to the nmos switch
                    gate = 1;
                    #10 gate = 0;
                    #30 gate = 1;
                    #10 gate = 0;
                    #100 $finish;
                  end
                endmodule
endmodule
