module t0388;
initial begin
                  bit unpackedbits [1:0] = '{1,1};        // no size warning required as
                                                          // bit can be set to 1
                  int unpackedints [1:0] = '{1'b1, 1'b1}; // no size warning required as
                                                          // int can be set to 1'b1
                end
endmodule
