module t1011;
interface i;
                  wire x, y;
                  interface illegal_i;
                    wire a, b, c, d;
                    // x, y not declared by this interface
                    modport master(input a, b, x, output c, d, y);
                    modport slave(output a, b, x, input c, d, y);
                  endinterface : illegal_i
                endinterface : i

                interface illegal_i;
                  // a, b, c, d not declared by this interface
                  modport master(input a, b, output c, d);
                  modport slave(output a, b, input c, d);
                endinterface : illegal_i
endmodule
