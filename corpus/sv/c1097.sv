module t1097;
specify
                  $nochange( posedge clk, data, 0, 0) ;
                endspecify
endmodule
