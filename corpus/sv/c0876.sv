module t0876;
module driver (net_r);
                  output [64:1] net_r;
                  real r;
                  wire [64:1] net_r = $realtobits(r);
                endmodule

                module receiver (net_r);
                  input [64:1] net_r;
                  wire [64:1] net_r;
                  real r;
                  initial assign r = $bitstoreal(net_r);
                endmodule
endmodule
