`macro(A, B, logic, a())
