module t1020;
interface simple_bus (input logic clk); // Define the interface
                  logic req, gnt;
                  logic [7:0] addr, data;
                  logic [1:0] mode;
                  logic start, rdy;

                  modport slave (input req, addr, mode, start, clk,
                                 output gnt, rdy,
                                 ref data,
                                 import slaveRead,
                                        slaveWrite);
                    // import into module that uses the modport

                  modport master(input gnt, rdy, clk,
                                 output req, addr, mode, start,
                                 ref data,
                                 import masterRead,
                                        masterWrite);
                    // import into module that uses the modport

                  task masterRead(input logic [7:0] raddr); // masterRead method
                    // ...
                  endtask

                  task slaveRead; // slaveRead method
                    // ...
                  endtask

                  task masterWrite(input logic [7:0] waddr);
                    //...
                  endtask

                  task slaveWrite;
                    //...
                  endtask
                endinterface: simple_bus

                module memMod(interface a); // Uses just the interface
                  logic avail;

                  always @(posedge a.clk) // the clk signal from the interface
                    a.gnt <= a.req & avail; // the gnt and req signals in the interface

                  always @(a.start)
                    if (a.mode[0] == 1'b0)
                      a.slaveRead;
                    else
                      a.slaveWrite;
                endmodule

                module cpuMod(interface b);
                  enum {read, write} instr;
                  logic [7:0] raddr = $random();

                  always @(posedge b.clk)
                    if (instr == read)
                      b.masterRead(raddr); // call the Interface method
                    else
                      b.masterWrite(raddr);
                endmodule

                module omniMod( interface b);
                  //...
                endmodule: omniMod

                module top;
                  logic clk = 0;
                  simple_bus sb_intf(clk); // Instantiate the interface
                  memMod mem(sb_intf.slave); // only has access to the slave tasks
                  cpuMod cpu(sb_intf.master); // only has access to the master tasks
                  omniMod omni(sb_intf); // has access to all master and slave tasks
                endmodule
endmodule
