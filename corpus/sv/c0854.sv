module t0854;
bit [3:0] a, b, c;

                covergroup cov2 @(posedge clk);
                  BC: coverpoint b+c;
                  aXb : cross a, BC;
                endgroup
endmodule
