module t0612;
sequence event_arg_example (event ev);
                  @(ev) x ##1 y;
                endsequence

                cover property (event_arg_example(posedge clk));
endmodule
