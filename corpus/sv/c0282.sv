module t0282;
class C #(int p = 1);
                  parameter int q = 5; // local parameter
                  static task t;
                    int p;
                    int x = C::p; // C::p disambiguates p
                                  // C::p is not p in the default specialization
                  endtask
                endclass

                int x = C::p;     // illegal; C:: is not permitted in this context
                int y = C#()::p;  // legal; refers to parameter p in the default
                                  // specialization of C
                typedef C T;      // T is a default specialization, not an alias to
                                  // the name "C"
                int z = T::p;     // legal; T::p refers to p in the default specialization
                int v = C#(3)::p; // legal; parameter p in the specialization of C#(3)
                int w = C#()::q;  // legal; refers to the local parameter
                T obj = new();
                int u = obj.q;    // legal; refers to the local parameter
                bit arr[obj.q];   // illegal: local parameter is not a constant expression
endmodule
