module t0183;
int arr1 [][2][3] = new [4]; // arr1 sized to length 4; elements are
                                             // fixed-size arrays and so do not require
                                             // initializing

                int arr2 [][] = new [4];     // arr2 sized to length 4; dynamic subarrays
                                             // remain unsized and uninitialized
endmodule
