module t1005;
module memMod (interface a, input logic clk);
                endmodule

                module cpuMod (interface b, input logic clk);
                endmodule

                module top;
                  logic clk = 0;

                  simple_bus sb_intf();

                  memMod mem (.*, .a(sb_intf)); // partial implicit port connections
                  cpuMod cpu (.*, .b(sb_intf)); // partial implicit port connections
                endmodule
endmodule
