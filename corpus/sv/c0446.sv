module t0446;
module bitlength();
                  logic [3:0] a, b, c;
                  logic [4:0] d;

                  initial begin
                    a = 9;
                    b = 8;
                    c = 1;
                    $display("answer = %b", c ? (a&b) : d);
                  end
                endmodule
endmodule
