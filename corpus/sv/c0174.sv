module t0174;
typedef bit [1:5] bsix;
                bsix [1:10] v5; // 1 to 5 varies most rapidly
endmodule
