module t0610;
sequence delay_arg_example (max, shortint delay1, delay2, min);
                  x ##delay1 y[*min:max] ##delay2 z;
                endsequence

                parameter my_delay=2;
                cover property (delay_arg_example($, my_delay, my_delay-1, 3));
endmodule
