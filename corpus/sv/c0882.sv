module t0882;
logic [1:0] bad_bits;
                logic [31:0] myvec;
                logic design_initialization_done;

                always_comb begin
                  if (!design_initialization_done) begin
                    bad_bits[0] = 'x;
                    bad_bits[1] = 'x; // Repeated control_bit same as single occurrence
                  end else begin
                    bad_bits[0] = 'x;
                    bad_bits[1] = 'z;
                  end

                  // Z allowed during initialization, but no Z or X allowed afterwards
                  a1: assert ($countbits(myvec,bad_bits[0],bad_bits[1]) == 0);
                end
endmodule
