module t0196;
int b[3:1][3:1];   // OK: same type, dimension, and size

                int b[1:3][0:2];   // OK: same type, dimension, & size (different ranges)

                logic b[3:1][3:1]; // error: incompatible element type

                event b[3:1][3:1]; // error: incompatible type

                int b[3:1];        // error: incompatible number of dimensions

                int b[3:1][4:1];   // error: incompatible size (3 vs. 4)
endmodule
