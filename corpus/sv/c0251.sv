module t0251;
class LinkedPacket extends Packet;
                  LinkedPacket next;

                  function LinkedPacket get_next();
                    get_next = next;
                  endfunction
                endclass
endmodule
