module t0542;
interface bus_A (input clk);
                  logic [15:0] data;
                  logic write;
                  modport test (input data, output write);
                  modport dut (output data, input write);
                endinterface

                interface bus_B (input clk);
                  logic [8:1] cmd;
                  logic enable;
                  modport test (input enable);
                  modport dut (output enable);
                endinterface

                program test( bus_A.test a, bus_B.test b );
                  clocking cd1 @(posedge a.clk);
                    input data = a.data;
                    output write = a.write;
                    inout state = top.cpu1.state;
                  endclocking

                  clocking cd2 @(posedge b.clk);
                    input #2 output #4ps cmd = b.cmd;
                    input en = b.enable;
                  endclocking

                  initial begin
                    // program begins here
                    // user can access cd1.data, cd1.write, cd1.state,
                    // cd2.cmd, and cd2.en
                  end
                endprogram
endmodule
