module t0696;
property rule6(x,y);
                  ##1 x |-> y;
                endproperty
                property rule5a;
                  @(posedge clk)
                  a ##1 (b || c)[->1] |->
                    if (b)
                      rule6(d,e)
                    else // c
                      f ;
                endproperty
endmodule
