module t0961;
module child(output o, input i[5]);
                  //...
                endmodule : child

                module parent(output o[8][4],
                              input i[8][4][5] );
                              child c[8][4](o,i);
                  //...
                endmodule : parent
endmodule
