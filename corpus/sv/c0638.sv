module t0638;
sequence e1;
                  @(posedge sysclk) $rose(ready) ##1 proc1 ##1 proc2 ;
                endsequence
                sequence rule;
                  @(posedge sysclk) reset ##1 inst ##1 e1.triggered ##1 branch_back;
                endsequence
endmodule
