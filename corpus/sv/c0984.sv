module t0984;
module tb2;
                  wire [9:0] out_a, out_d;
                  wire [4:0] out_b, out_c;
                  logic [9:0] in_a, in_d;
                  logic [4:0] in_b, in_c;
                  logic clk;

                  // testbench clock & stimulus generation code ...

                  // Four instances of vdff with parameter value assignment by name

                  // mod_a has new parameter values size=10 and delay=15
                  // mod_b has default parameters (size=5, delay=1)
                  // mod_c has one default size=5 and one new delay=12
                  // mod_d has a new parameter value size=10.
                  //   delay retains its default value

                  vdff #(.size(10),.delay(15)) mod_a (.out(out_a),.in(in_a),.clk(clk));
                  vdff mod_b (.out(out_b),.in(in_b),.clk(clk));
                  vdff #(.delay(12)) mod_c (.out(out_c),.in(in_c),.clk(clk));
                  vdff #(.delay( ),.size(10) ) mod_d (.out(out_d),.in(in_d),.clk(clk));
                endmodule

                module vdff (out, in, clk);
                  parameter size=5, delay=1;
                  output [size-1:0] out;
                  input [size-1:0] in;
                  input clk;
                  logic [size-1:0] out;

                  always @(posedge clk)
                    #delay out = in;
                endmodule
endmodule
