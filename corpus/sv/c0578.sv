module t0578;
initial begin
                  wait_order( a, b, c ) else $display( "Error: events out of order" );
                end
endmodule
