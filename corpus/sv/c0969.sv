module t0969;
module m (a,b,c,d);
                  input a,b,c;
                  output d;
                endmodule

                module a #(parameter size = 8, parameter type TP = logic [7:0])
                         (input [size:0] a, output TP b);
                endmodule
endmodule
