module t0336;
always @* begin // equivalent to @(a or b or c or d or tmp1 or tmp2)
                  tmp1 = a & b;
                  tmp2 = c & d;
                  y = tmp1 | tmp2;
                end
endmodule
