module memMod(simple_bus a); // simple_bus interface port
                  logic avail;
                  // When memMod is instantiated in module top, a.req is the req
                  // signal in the sb_intf instance of the 'simple_bus' interface
                  always @(posedge a.clk) a.gnt <= a.req & avail;
                endmodule
