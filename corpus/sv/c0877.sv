typedef bit node; // "bit"
                node [2:0] X; // "bit [2:0]"
                int signed Y; // "int"
                package A;
                  enum {A,B,C=99} X; // "enum{A=32'sd0,B=32'sd1,C=32'sd99}A::e$1"
                  typedef bit [9:1'b1] word; // "A::bit[9:1]"
                endpackage : A
                import A::*;
                module top;
                  typedef struct {node A,B;} AB_t;
                  AB_t AB[10]; // "struct{bit A;bit B;}top.AB_t$[0:9]"
                endmodule
