module t0740;
module m1;
                  bit clk, rst1;
                  default disable iff rst1;
                  a1: assert property (@(posedge clk) p1); // property p1 is
                                                           // defined elsewhere
                  module m2;
                    bit rst2;
                    default disable iff rst2;
                    a2: assert property (@(posedge clk) p2); // property p2 is
                                                             // defined elsewhere
                  endmodule
                endmodule
endmodule
