module t0420;
initial begin
                  logic log1, log2, log3;
                  {log1, log2, log3} = 3'b111;
                  {log1, log2, log3} = {1'b1, 1'b1, 1'b1}; // same effect as 3'b111
                end
endmodule
