module t0152;
typedef struct {
                  byte length;
                  shortint address;
                  byte payload[];
                  byte chksum;
                } Packet;
endmodule
