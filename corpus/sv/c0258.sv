module t0258;
class Big_Packet;
                  const int size; // instance constant
                  byte payload [];
                  function new();
                    size = $urandom % 4096; //one assignment in new -> ok
                    payload = new[ size ];
                  endfunction
                endclass
endmodule
