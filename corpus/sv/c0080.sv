module t0080;
int i = 0;
endmodule
