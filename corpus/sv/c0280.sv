module t0280;
class C #(type T = bit); endclass                        // base class
                class D1 #(type P = real) extends C; endclass            // T is bit (the default)
                class D2 #(type P = real) extends C #(integer); endclass // T is integer
                class D3 #(type P = real) extends C #(P); endclass       // T is P
                class D4 #(type P = C#(real)) extends P; endclass        // for default, T is real
endmodule
