module t0195;
string d[1:5] = '{ "a", "b", "c", "d", "e" };
                string p[];
                p = { d[1:3], "hello", d[4:5] };
endmodule
