module t0207;
initial begin
                  if ( map.exists( "hello" ))
                    map[ "hello" ] += 1;
                  else
                    map[ "hello" ] = 0;
                end
endmodule
