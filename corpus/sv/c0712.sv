module t0712;
a1:assume property ( @(posedge clk) req dist {0:=40, 1:=60} ) ;
                property proto ;
                  @(posedge clk) req |-> req[*1:$] ##0 ack;
                endproperty
endmodule
