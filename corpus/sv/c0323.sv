module t0323;
initial
                  for( int j = 1; j <= 3; ++j )
                    fork
                      automatic int k = j; // local copy, k, for each value of j
                      #k $write( "%0d", k );
                      begin
                        automatic int m = j; // the value of m is undetermined
                      end
                    join_none
endmodule
