package p1;
                  typedef struct {int A;} t_1;
                endpackage

                typedef struct {int A;} t_2;

                module sub();
                  import p1::t_1;
                  parameter type t_3 = int;
                  parameter type t_4 = int;
                  typedef struct {int A;} t_5;
                  t_1 v1; t_2 v2; t_3 v3; t_4 v4; t_5 v5;
                endmodule

                module top();
                  typedef struct {int A;} t_6;
                  sub #(.t_3(t_6)) s1 ();
                  sub #(.t_3(t_6)) s2 ();

                  initial begin
                    s1.v1 = s2.v1; // legal - both types from package p1 (rule 8)
                    s1.v2 = s2.v2; // legal - both types from $unit (rule 4)
                    s1.v3 = s2.v3; // legal - both types from top (rule 2)
                    s1.v4 = s2.v4; // legal - both types are int (rule 1)
                    s1.v5 = s2.v5; // illegal - types from s1 and s2 (rule 4)
                  end
                endmodule
