module t0371;
module nonblock1;
                  logic a, b, c, d, e, f;

                  // blocking assignments
                  initial begin
                    a = #10 1; // a will be assigned 1 at time 10
                    b = #2 0; // b will be assigned 0 at time 12
                    c = #4 1; // c will be assigned 1 at time 16
                  end

                  // nonblocking assignments
                  initial begin
                    d <= #10 1; // d will be assigned 1 at time 10
                    e <= #2 0; // e will be assigned 0 at time 2
                    f <= #4 1; // f will be assigned 1 at time 4
                  end
                endmodule
endmodule
