module t0272;
typedef int T;
                class C;
                  extern function void f(T x);
                  typedef real T;
                endclass

                function void C::f(T x);
                endfunction
endmodule
