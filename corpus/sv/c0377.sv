module t0377;
wire w = vara & varb;      // net with a continuous assignment

                logic v = consta & constb; // variable with initialization
endmodule
