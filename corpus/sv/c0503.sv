module t0503;
initial begin
                  new_word = switch_bytes (old_word);
                end
endmodule
