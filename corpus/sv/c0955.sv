module t0955;
module alu_accum1 (
                  output [15:0] dataout,
                  input [7:0] ain, bin,
                  input [2:0] opcode,
                  input clk, rst_n, rst);
                  wire [7:0] alu_out;

                  alu alu (alu_out, , ain, bin, opcode); // zero output is unconnected

                  accum accum (dataout[7:0], alu_out, clk, rst_n);
                  xtend xtend (dataout[15:8], alu_out[7], clk); // rst gets default
                                                                // value 1'b0
                endmodule
endmodule
