module t0198;
integer i_array[*];         // associative array of integer (unspecified
                                            // index)

                bit [20:0] array_b[string]; // associative array of 21-bit vector,
                                            // indexed by string

                event ev_array[myClass];    // associative array of event indexed by class
                                            // myClass
endmodule
