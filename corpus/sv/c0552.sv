module t0552;
module top;
                  subsystem1 sub1();
                  subsystem2 sub2();
                endmodule

                module subsystem1;
                  logic subclk1, req, ack;
                  global clocking sub_sys1 @(subclk1); endclocking
                  common_checks checks(req, ack);
                endmodule

                module subsystem2;
                  logic subclk2, req, ack;
                  global clocking sub_sys2 @(subclk2); endclocking
                  common_checks checks(req, ack);
                endmodule

                module another_module;
                  logic another_clk;
                  global clocking another_clocking @(another_clk); endclocking
                  property p(req, ack);
                    @($global_clock) req |=> ack;
                  endproperty
                endmodule

                checker common_checks(logic req, logic ack);
                  assert property (another_module.p(req, ack));
                endchecker
endmodule
