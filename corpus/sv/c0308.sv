module t0308;
initial begin
                  inputs = 'b000000;     // initialize at time zero
                  #10 inputs = 'b011001; // first pattern
                  #10 inputs = 'b011011; // second pattern
                  #10 inputs = 'b011000; // third pattern
                  #10 inputs = 'b001000; // last pattern
                end
endmodule
