module t0915;
initial begin
                  $dumpvars ;
                  $dumpflush ;
                  //$(applications program) ;
                end
endmodule
