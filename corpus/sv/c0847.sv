module t0847;
covergroup cg (ref int ra, input int low, int high ) @(posedge clk);
                  coverpoint ra // sample variable passed by reference
                  {
                    bins good = { [low : high] };
                    bins bad[] = default;
                  }
                endgroup

                int va, vb;
                cg c1 = new( va, 0, 50 );    // cover variable va in the range 0 to 50
                cg c2 = new( vb, 120, 600 ); // cover variable vb in the range 120 to 600
endmodule
