module t0201;
int array_name [ some_Class ];
endmodule
