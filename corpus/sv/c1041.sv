module t1041;
module m;
                  import q::*;
                  wire a = c;  // This statement forces the import of q::c;
                  import p::c; // The conflict with q::c and p::c creates an error.
                endmodule
endmodule
