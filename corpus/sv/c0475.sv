module t0475;
initial begin
                  // declare variables and parameters
                  logic [31:0] instruction,
                               segment_area[255:0];
                  logic [7:0]  index;
                  logic [5:0]  modify_seg1,
                               modify_seg2,
                               modify_seg3;
                  parameter
                    segment1 = 0, inc_seg1 = 1,
                    segment2 = 20, inc_seg2 = 2,
                    segment3 = 64, inc_seg3 = 4,
                    data = 128;

                  // test the index variable
                  if (index < segment2) begin
                    instruction = segment_area [index + modify_seg1];
                    index = index + inc_seg1;
                  end
                  else if (index < segment3) begin
                    instruction = segment_area [index + modify_seg2];
                    index = index + inc_seg2;
                  end
                  else if (index < data) begin
                    instruction = segment_area [index + modify_seg3];
                    index = index + inc_seg3;
                  end
                  else
                    instruction = segment_area [index];
                end
endmodule
