module t0097;
enum bit [1:0] {IDLE, XX='x, S1=2'b01, S2=2'b10} state, next;
endmodule
