module cpuMod(simple_bus b); // simple_bus interface port
                endmodule
