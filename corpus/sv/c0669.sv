module t0669;
initial a1: assume property( @(posedge clk) reset[*5] #=# always !reset);

                property p1;
                  a ##1 b |=> always c;
                endproperty

                property p2;
                  always [2:5] a;
                endproperty

                property p3;
                  s_always [2:5] a;
                endproperty

                property p4;
                  always [2:$] a;
                endproperty

                property p5;
                  s_always [2:$] a; // Illegal
                endproperty
endmodule
