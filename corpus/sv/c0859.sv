module t0859;
int a;
                logic [7:0] b;
                covergroup cg;
                  coverpoint a { bins x[] = {[0:10]}; }
                  coverpoint b { bins y[] = {[0:20]}; }
                  aXb : cross a, b
                  {
                    bins one = '{ '{1,2}, '{3,4}, '{5,6} };
                  }
                endgroup
endmodule
