module t0477;
initial begin
                  unique0 if ((a==0) || (a==1)) $display("0 or 1");
                  else if (a == 2) $display("2");
                  else if (a == 4) $display("4"); // values 3,5,6,7
                                                  // cause no violation report
                end
endmodule
