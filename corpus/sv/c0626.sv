module t0626;
bit clk, fclk, req, gnt, en;

                a1: assert property
                  (@(posedge clk) en && $rose(req) |=> gnt);
                a2: assert property
                  (@(posedge clk) en && $rose(req, @(posedge fclk)) |=> gnt);
endmodule
