module t0758;
checker c1(event clk, logic[7:0] a, b);
                  logic [7:0] sum;
                  always_ff @(clk) begin
                    sum <= a + 1'b1;
                    p0: assert property (sum < MAX_SUM);
                  end
                  p1: assert property (@clk sum < MAX_SUM);
                  p2: assert property (@clk a != b);
                  p3: assert #0 ($onehot(a));
                endchecker

                module m(input logic rst, clk, logic en, logic[7:0] in1, in2,
                         in_array [20:0]);
                  c1 check_outside(posedge clk, in1, in2);
                  always @(posedge clk) begin
                    automatic logic [7:0] v1=0;
                    if (en) begin
                      // v1 is automatic, so current procedural value is used
                      c1 check_inside(posedge clk, in1, v1);
                    end
                    for (int i = 0; i < 4; i++) begin
                      v1 = v1+5;
                      if (i != 2) begin
                        // v1 is automatic, so current procedural value is used
                        c1 check_loop(posedge clk, in1, in_array[v1]);
                      end
                    end
                  end
                endmodule : m
endmodule
