module t0521;
ram_model #(32,421) ram_a0(a_addr,a_wr,a_cs,a_data);
endmodule
