module t0946;
module mymod (
                  output .P1(r[3:0]),
                  output .P2(r[7:4]),
                  ref .Y(x),
                  input R );
                  logic [7:0] r;
                  int x;
                endmodule
endmodule
