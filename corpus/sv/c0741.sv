module t0741;
module examples_with_default (input logic a, b, clk, rst, rst1);
                  default disable iff rst;
                  property p1;
                    disable iff (rst1) a |=> b;
                  endproperty

                  // Disable condition is rst1 - explicitly specified within a1
                  a1 : assert property (@(posedge clk) disable iff (rst1) a |=> b);

                  // Disable condition is rst1 - explicitly specified within p1
                  a2 : assert property (@(posedge clk) p1);

                  // Disable condition is rst - no explicit specification, inferred from
                  // default disable iff declaration
                  a3 : assert property (@(posedge clk) a |=> b);

                  // Disable condition is 1'b0. This is the only way to
                  // cancel the effect of default disable.
                  a4 : assert property (@(posedge clk) disable iff (1'b0) a |=> b);
                endmodule

                module examples_without_default (input logic a, b, clk, rst);
                  property p2;
                    disable iff (rst) a |=> b;
                  endproperty

                  // Disable condition is rst - explicitly specified within a5
                  a5 : assert property (@(posedge clk) disable iff (rst) a |=> b);

                  // Disable condition is rst - explicitly specified within p2
                  a6 : assert property (@ (posedge clk) p2);

                  // No disable condition
                  a7 : assert property (@ (posedge clk) a |=> b);
                endmodule
endmodule
