module t1106;
specify
                  $setuphold(posedge CLK, DATA1, -10, 20);
                  $setuphold(posedge CLK, DATA2, -15, 18);
                endspecify
endmodule
