module t0862;
covergroup zz(int bad);
                  cross x, y
                  {
                    illegal_bins illegal = binsof(y) intersect {bad};
                  }
                endgroup
endmodule
