module t0507;
task my_task;
                  input a, b;
                  inout c;
                  output d, e;
                  c = a; // the assignments that initialize result outputs
                  d = b;
                  e = c;
                endtask
endmodule
