module t0981;
module top;
                  logic clk;
                  logic [0:4] in1;
                  logic [0:9] in2;
                  wire [0:4] o1;
                  wire [0:9] o2;

                  vdff m1 (o1, in1, clk);
                  vdff m2 (o2, in2, clk);
                endmodule

                module vdff (out, in, clk);
                  parameter size = 1, delay = 1;
                  input [0:size-1] in;
                  input clk;
                  output [0:size-1] out;
                  logic [0:size-1] out;

                  always @(posedge clk)
                    # delay out = in;
                endmodule

                module annotate;
                  defparam
                    top.m1.size = 5,
                    top.m1.delay = 10,
                    top.m2.size = 10,
                    top.m2.delay = 20;
                endmodule
endmodule
