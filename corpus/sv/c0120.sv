module t0120;
interface width_checker #(parameter min_cks = 1, parameter max_cks = 1)
                                         (input logic clk, reset_n, expr);
                  generate
                    if ($isunbounded(max_cks)) begin
                      property width;
                        @(posedge clk)
                          (reset_n && $rose(expr)) |-> (expr [* min_cks]);
                      endproperty
                      a2: assert property (width);
                    end
                    else begin
                      property assert_width_p;
                        @(posedge clk)
                          (reset_n && $rose(expr)) |-> (expr[* min_cks:max_cks])
                            ##1 (!expr);
                      endproperty
                      a2: assert property (width);
                    end
                  endgenerate
                endinterface

                width_checker #(3, $) max_width_unspecified (clk,1,enables);
                width_checker #(2, 4) width_specified (clk,1,enables);
endmodule
