module t0850;
covergroup cg23;
                  coverpoint a
                  {
                    ignore_bins ignore_vals = {7,8};
                    ignore_bins ignore_trans = (1=>3=>5);
                  }
                endgroup
endmodule
