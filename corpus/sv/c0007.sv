module a; always_comb if ( a ? b : c ) begin end endmodule
