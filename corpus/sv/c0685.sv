module t0685;
property illegal_recursion_1(p);
                  not prop_always(not p);
                endproperty

                property illegal_recursion_2(p);
                  p and (1'b1 |=> not illegal_recursion_2(p));
                endproperty
endmodule
