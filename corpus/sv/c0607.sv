module t0607;
sequence rule;
                  @(posedge sysclk)
                  trans ##1 start_trans ##1 (a ##1 b ##1 c) ##1 end_trans ;
                endsequence
endmodule
