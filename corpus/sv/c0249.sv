module t0249;
initial begin
                  Packet p1 = new;
                  Packet p2 = new;
                  p2.copy(p1);
                end
endmodule
