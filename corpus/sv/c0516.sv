module t0516;
function [15:0] myfunc1 (input [7:0] x,y);
                  myfunc1 = x * y - 1; // return value assigned to function name
                endfunction

                function [15:0] myfunc2 (input [7:0] x,y);
                  return x * y - 1; //return value is specified using return statement
                endfunction
endmodule
