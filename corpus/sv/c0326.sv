module t0326;
initial begin
                  fork
                    @enable_a
                      begin
                        #ta wa = 0;
                        #ta wa = 1;
                        #ta wa = 0;
                      end
                    @enable_b
                      begin
                        #tb wb = 1;
                        #tb wb = 0;
                        #tb wb = 1;
                      end
                  join
                end
endmodule
