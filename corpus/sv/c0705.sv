module t0705;
sequence e1(a,b,c);
                  @(posedge clk) $rose(a) ##1 b ##1 c ;
                endsequence
                sequence e2;
                  @(posedge sysclk) reset ##1 inst ##1 e1(ready,proc1,proc2).matched [->1]
                    ##1 branch_back;
                endsequence
endmodule
