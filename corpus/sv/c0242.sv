module t0242;
class TwoTasks;
                  static task t1(); endtask // static class method with
                                            // automatic variable lifetime

                  task static t2(); endtask // ILLEGAL: non-static class method with
                                            // static variable lifetime
                endclass
endmodule
