module t0535;
clocking ck1 @(posedge clk);
                  default input #1step output negedge; // legal
                  // outputs driven on the negedge clk
                endclocking

                clocking ck2 @(clk); // no edge specified!
                  default input #1step output negedge; // legal
                endclocking
endmodule
