module t0116;
parameter msb = 7;       // defines msb as a constant value 7
                parameter e = 25, f = 9; // defines two constant numbers
                parameter r = 5.7;       // declares r as a real parameter
                parameter byte_size = 8,
                          byte_mask = byte_size - 1;
                parameter average_delay = (r + f) / 2;

                parameter signed [3:0] mux_selector = 0;
                parameter real r1 = 3.5e17;
                parameter p1 = 13'h7e;
                parameter [31:0] dec_const = 1'b1; // value converted to 32 bits
                parameter newconst = 3'h4;         // implied range of [2:0]
                parameter newconst = 4;            // implied range of at least [31:0]
endmodule
