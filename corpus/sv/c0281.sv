module t0281;
class C #(int p = 1);
                endclass
                class D #(int p);
                endclass
                C obj; // legal; equivalent to "C#() obj";
                D obj; // illegal; D has no default specialization
endmodule
