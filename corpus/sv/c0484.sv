module t0484;
initial begin
                  logic [7:0] ir;

                  casez (ir)
                    8'b1???????: instruction1(ir);
                    8'b01??????: instruction2(ir);
                    8'b00010???: instruction3(ir);
                    8'b000001??: instruction4(ir);
                  endcase
                end
endmodule
