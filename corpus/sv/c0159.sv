module t0159;
typedef struct packed { // default unsigned
                  bit [3:0] GFC;
                  bit [7:0] VPI;
                  bit [11:0] VCI;
                  bit CLP;
                  bit [3:0] PT ;
                  bit [7:0] HEC;
                  bit [47:0] [7:0] Payload;
                  bit [2:0] filler;
                } s_atmcell;
endmodule
