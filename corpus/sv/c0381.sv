module t0381;
logic [5:0] a;
                logic signed [4:0] b;

                initial begin
                  a = 8'hff; // After the assignment, a = 6'h3f
                  b = 8'hff; // After the assignment, b = 5'h1f
                end
endmodule
