module t0560;
initial begin
                  @(negedge dom.sig1 or posedge dom.sig2);
                end
endmodule
