module t0330;
initial begin
                  #d rega = regb;         // d is defined as a parameter
                  #((d+e)/2) rega = regb; // delay is average of d and e
                  #regr regr = regr + 1;  // delay is the value in regr
                end
endmodule
