module t0495;
module m;
                  initial begin
                    begin
                      automatic int i;
                      for (i = 0; i <= 255; i++);
                    end
                  end

                  initial begin
                    begin : loop2
                      automatic int i;
                      for (i = 15; i >= 0; i--);
                    end
                  end
                endmodule
endmodule
