module t0839;
enum { red, green, blue } color;
                bit [3:0] pixel_adr, pixel_offset, pixel_hue;

                covergroup g2 @(posedge clk);
                  Hue: coverpoint pixel_hue;
                  Offset: coverpoint pixel_offset;
                  AxC: cross color, pixel_adr;   // cross 2 variables (implicitly declared
                                                 // coverpoints)
                  all: cross color, Hue, Offset; // cross 1 variable and 2 coverpoints
                endgroup
endmodule
