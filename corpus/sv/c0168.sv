module t0168;
byte c2;    // same as bit signed [7:0] c2;
                integer i1; // same as logic signed [31:0] i1;
endmodule
