module t0736;
default clocking @(posedge clk); endclocking
                always @(a or b or c) begin : b2
                  if (c == 8'hff) begin
                    a2: assert property (a && b);
                  end else begin
                    a3: assert property (a || b);
                  end
                end

                always @(clear_b2) begin : b3
                  disable b2;
                end
endmodule
