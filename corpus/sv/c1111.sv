module t1111;
assign TE_cond_D = (dTE !== 1'b1);
                assign TE_cond_TI = (dTE !== 1'b0);
                assign DXTI_cond = (dTI !== dD);

                specify
                  $setuphold(posedge CP, D, -10, 20, notifier, ,TE_cond_D, dCP, dD);
                  $setuphold(posedge CP, TI, 20, -10, notifier, ,TE_cond_TI, dCP, dTI);
                  $setuphold(posedge CP, TE, -4, 8, notifier, ,DXTI_cond, dCP, dTE);
                endspecify
endmodule
