module t0404;
module byte_rip (inout wire [31:0] W, inout wire [7:0] LSB, MSB);
                  alias W[7:0] = LSB;
                  alias W[31:24] = MSB;
                endmodule
endmodule
