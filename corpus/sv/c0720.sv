module t0720;
property rule;
                  a ##1 b ##1 c;
                endproperty
                always @(posedge clk) begin
                  assert property (rule);
                end
endmodule
