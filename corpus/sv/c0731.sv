module t0731;
assign not_a = !a;
                default clocking @(posedge clk); endclocking
                always_comb begin : b1
                  // Probably better to not use consts in this example
                  // ...but using them to illustrate effects of flushing method
                  a1: assert property (const'(not_a) != const'(a));
                end
endmodule
