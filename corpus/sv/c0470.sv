module t0470;
module m(input clock);
                  logic [15:0] a, b;
                  logic c, d;
                  typedef bit [15:0] bits;

                  // let ones_match(bits x, y) = x == y;
                  // let same(logic x, y) = x === y;

                  always_comb
                    a1:assert((bits'(a) == bits'(b)));

                  property toggles(bit x, y);
                    (logic'(x) === logic'(y)) |=> ! (logic'(x) === logic'(y));
                  endproperty

                  a2: assert property (@(posedge clock) toggles(c, d));
                  endmodule : m
endmodule
