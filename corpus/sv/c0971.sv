module t0971;
initial begin
                  fork : mod_1
                    reg x;
                    mod_2.x = 1;
                  join
                  fork : mod_2
                    reg x;
                    mod_1.x = 0;
                  join
                end
endmodule
