module t0911;
initial $dumpfile ("module1.dump") ;
endmodule
