module t0528;
initial begin
                  read( , 5 );     // is equivalent to read( 0, 5, 1 );
                  read( 2, 5 );    // is equivalent to read( 2, 5, 1 );
                  read( , 5, );    // is equivalent to read( 0, 5, 1 );
                  read( , 5, 7 );  // is equivalent to read( 0, 5, 7 );
                  read( 1, 5, 2 ); // is equivalent to read( 1, 5, 2 );
                  read( );         // error; k has no default value
                  read( 1, , 7 );  // error; k has no default value
                end
endmodule
