virtual class C#(parameter type T = logic, parameter SIZE = 1);
                  typedef logic [SIZE-1:0] t_vector;
                  typedef T t_array [SIZE-1:0];
                  typedef struct {
                    t_vector m0 [2*SIZE-1:0];
                    t_array m1;
                  } t_struct;
                endclass
