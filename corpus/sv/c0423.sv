module t0423;
initial begin
                  result = {4{func(w)}} ;
                end
endmodule
