module t0852;
bit [2:0] p1; // type expresses values in the range 0 to 7
                bit signed [2:0] p2; // type expresses values in the range –4 to 3
                covergroup g1 @(posedge clk);
                  coverpoint p1 {
                    bins b1 = { 1, [2:5], [6:10] };
                    bins b2 = { -1, [1:10], 15 };
                  }
                  coverpoint p2 {
                    bins b3 = {1, [2:5], [6:10] };
                    bins b4 = { -1, [1:10], 15 };
                  }
                endgroup
endmodule
