module t0220;
initial begin
                  string s[] = { "hello", "sad", "world" };
                  s.reverse;                              // s becomes { "world", "sad", "hello" };
                end

                initial begin
                  int q[$] = { 4, 5, 3, 1 };
                  q.sort;                                 // q becomes { 1, 3, 4, 5 }
                end

                initial begin
                  struct { byte red, green, blue; } c [512];
                  c.sort with ( item.red );               // sort c using the red field only
                  c.sort( x ) with ( {x.blue, x.green} ); // sort by blue then green
                end
endmodule
