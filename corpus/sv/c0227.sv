module t0227;
initial $display (p.ERR_OVERFLOW);
endmodule
