module t0603;
sequence delay_example(x, y, min, max, delay1);
                  x ##delay1 y[*min:max];
                endsequence

                // Legal
                a1: assert property (@(posedge clk) delay_example(x, y, 3, $, 2));

                int z, d;

                // Illegal: z and d are not elaboration-time constants
                a2_illegal: assert property (@(posedge clk) delay_example(x, y, z, $, d));
endmodule
