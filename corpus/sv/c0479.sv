module t0479;
always_comb begin
                  for (int j = 0; j < 3; j++)
                  not_a[j] = !a[j];
                end

                always_comb begin : a1
                  for (int j = 0; j < 3; j++)
                    unique if (a[j])
                      z[j] = a[j] | b[j];
                    else if (not_a[j])
                      z[j] = a[j] | c[j];
                end
endmodule
