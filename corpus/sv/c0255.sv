module t0255;
class c;
                  function new();
                    super.new(5);
                  endfunction
                endclass
endmodule
