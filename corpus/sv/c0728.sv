module t0728;
wire w;
                always @(posedge clk) begin : procedural_block_1
                  if (my_activation_condition == 1) begin
                    for (int i=0; i<2; i++) begin
                      a7: assume property (foo[i] |=> bar[i] ##1 (w==1'b1));
                    end
                  end
                end
endmodule
