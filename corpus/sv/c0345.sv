module t0345;
initial begin
                  repeat (3) @ (event_expression);
                    // will execute event_expression three times
                  repeat (-3) @ (event_expression);
                    // will not execute event_expression.
                  repeat (a) @ (event_expression);
                    // if a is assigned -3, it will execute the event_expression if a is
                    // declared as an unsigned variable, but not if a is signed
                end
endmodule
