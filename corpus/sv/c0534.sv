module t0534;
module top ();
                  logic [7:0] encoder_in;
                  logic [2:0] encoder_out;
                  logic [1:0] decoder_in;
                  logic [3:0] decoder_out;

                  // Encoder and Decoder Input Assignments
                  assign encoder_in = 8'b0100_0000;
                  assign decoder_in = 2'b11;

                  // Encoder and Decoder Function calls
                  assign encoder_out = C#(8)::ENCODER_f(encoder_in);
                  assign decoder_out = C#(4)::DECODER_f(decoder_in);

                  initial begin
                    #50;
                    $display("Encoder input = %b Encoder output = %b\n",
                      encoder_in, encoder_out );
                    $display("Decoder input = %b Decoder output = %b\n",
                      decoder_in, decoder_out );
                  end
                endmodule
endmodule
