module t0593;
module m (input a, b);
                  a1: assert #0 (a == b);
                endmodule
endmodule
