module t0903;
initial begin
                  integer pos ;
                  pos = $ftell ( fd );
                end
endmodule
