module t0368;
wire #10 wireA;
endmodule
