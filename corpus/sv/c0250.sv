module t0250;
class LinkedPacket;
                  Packet packet_c;
                  LinkedPacket next;

                  function LinkedPacket get_next();
                    get_next = next;
                  endfunction
                endclass
endmodule
