module t0672;
assert property (@(clk) go ##1 get[*2] |-> reject_on(stop) put[->2]);
endmodule
