module t0569;
reg j;

                clocking pe @(posedge clk);
                  output j;
                endclocking

                clocking ne @(negedge clk);
                  output j;
                endclocking
endmodule
