module t0512;
module traffic_lights;
                  logic clock, red, amber, green;
                  parameter on = 1, off = 0, red_tics = 350,
                            amber_tics = 30, green_tics = 200;

                  // initialize colors
                  initial red = off;
                  initial amber = off;
                  initial green = off;

                  always begin                // sequence to control the lights
                    red = on;                 // turn red light on
                    light(red, red_tics);     // and wait.
                    green = on;               // turn green light on
                    light(green, green_tics); // and wait.
                    amber = on;               // turn amber light on
                    light(amber, amber_tics); // and wait.
                  end

                  // task to wait for 'tics' positive edge clocks
                  // before turning 'color' light off
                  task light (output color, input [31:0] tics);
                    repeat (tics) @ (posedge clock);
                    color = off; // turn light off.
                  endtask: light

                  always begin   // waveform for the clock
                    #100 clock = 0;
                    #100 clock = 1;
                  end
                endmodule: traffic_lights
endmodule
