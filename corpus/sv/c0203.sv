module t0203;
typedef struct {byte B; int I[*];} Unpkt;
                int array_name [ Unpkt ];
endmodule
