module t0401;
initial begin
                  SQ = {S1, SQ, T_SQ'{"element 3 is ", S2} };
                    // result: '{"S1", "element 0", "element 1", "element 3 is ", "S2"}
                end
endmodule
