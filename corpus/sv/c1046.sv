module t1046;
module addergen1 (co, sum, a, b, ci);
                  parameter SIZE = 4;
                  output [SIZE-1:0] sum;
                  output co;
                  input [SIZE-1:0] a, b;
                  input ci;
                  wire [SIZE :0] c;
                  genvar i;

                  assign c[0] = ci;

                  // Hierarchical gate instance names are:
                  // xor gates: bitnum[0].g1 bitnum[1].g1 bitnum[2].g1 bitnum[3].g1
                  // bitnum[0].g2 bitnum[1].g2 bitnum[2].g2 bitnum[3].g2
                  // and gates: bitnum[0].g3 bitnum[1].g3 bitnum[2].g3 bitnum[3].g3
                  // bitnum[0].g4 bitnum[1].g4 bitnum[2].g4 bitnum[3].g4
                  // or gates: bitnum[0].g5 bitnum[1].g5 bitnum[2].g5 bitnum[3].g5
                  // Gate instances are connected with nets named:
                  // bitnum[0].t1 bitnum[1].t1 bitnum[2].t1 bitnum[3].t1
                  // bitnum[0].t2 bitnum[1].t2 bitnum[2].t2 bitnum[3].t2
                  // bitnum[0].t3 bitnum[1].t3 bitnum[2].t3 bitnum[3].t3

                  for(i=0; i<SIZE; i=i+1) begin:bitnum
                    wire t1, t2, t3;
                    xor g1 ( t1, a[i], b[i]);
                    xor g2 ( sum[i], t1, c[i]);
                    and g3 ( t2, a[i], b[i]);
                    and g4 ( t3, t1, c[i]);
                    or  g5 ( c[i+1], t2, t3);
                  end

                  assign co = c[SIZE];
                endmodule
endmodule
