config cfg2;
                  design rtlLib.top ;
                  default liblist gateLib aLib rtlLib;
                endconfig
