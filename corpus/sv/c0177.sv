module t0177;
bit [7:0] [31:0] v7 [1:5] [1:10], v8 [0:255]; // two arrays declared
endmodule
