module t0343;
initial begin
                  wait (!enable) #10 a = b;
                  #10 c = d;
                end
endmodule
