module t0059;
struct {
                  bit [7:0] A;
                  bit [7:0] B;
                  byte C;
                } abc;
endmodule
