`define wordsize 8
                `define var_nand(dly) nand #dly
