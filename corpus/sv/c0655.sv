module t0655;
sequence s7;
                  int x,y;
                  ((a ##1 (b, x = data, y = data1) ##1 c)
                    and (d ##1 (true, x = data) ##0 (e==x))) ##1 (x==data2);
                  // illegal because x is common to both threads
                endsequence
                sequence s8;
                  int x,y;
                  ((a ##1 (b, x = data, y = data1) ##1 c)
                    and (d ##1 (true, x = data) ##0 (e==x))) ##1 (y==data2);
                  // legal because y is in the difference
                endsequence
endmodule
