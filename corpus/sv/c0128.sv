program automatic test ;
                  int i;            // not within a procedural block - static
                  task t ( int a ); // arguments and variables in t are automatic
                  endtask
                endprogram
