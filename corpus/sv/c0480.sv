module t0480;
module fsm();
                  function bit f1(bit a, bit not_a);
                    a1: unique if (a);
                    else if (not_a);
                  endfunction

                  always_comb begin : b1
                    some_stuff = f1(c, d);
                  end

                  always_comb begin : b2
                    other_stuff = f1(e, f);
                  end
                endmodule
endmodule
