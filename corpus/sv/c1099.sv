primitive posdff_udp(q, clock, data, preset, clear, notifier);
                  output q; reg q;
                  input clock, data, preset, clear, notifier;
                  table
                    //clock data p c notifier state q
                    //-------------------------------------
                    r 0 1 1 ? : ? : 0 ;
                    r 1 1 1 ? : ? : 1 ;
                    p 1 ? 1 ? : 1 : 1 ;
                    p 0 1 ? ? : 0 : 0 ;
                    n ? ? ? ? : ? : - ;
                    ? * ? ? ? : ? : - ;
                    ? ? 0 1 ? : ? : 1 ;
                    ? ? * 1 ? : 1 : 1 ;
                    ? ? 1 0 ? : ? : 0 ;
                    ? ? 1 * ? : 0 : 0 ;
                    ? ? ? ? * : ? : x ;// At any notifier event
                    // output x
                  endtable
                endprimitive

                module dff(q, qbar, clock, data, preset, clear);
                  output q, qbar;
                  input clock, data, preset, clear;
                  reg notifier;
                  and (enable, preset, clear);
                  not (qbar, ffout);
                  buf (q, ffout);
                  posdff_udp (ffout, clock, data, preset, clear, notifier);

                  specify
                    // Define timing check specparam values
                    specparam tSU = 10, tHD = 1, tPW = 25, tWPC = 10, tREC = 5;
                    // Define module path delay rise and fall min:typ:max values
                    specparam tPLHc = 4:6:9 , tPHLc = 5:8:11;
                    specparam tPLHpc = 3:5:6 , tPHLpc = 4:7:9;
                    // Specify module path delays
                    (clock *> q,qbar) = (tPLHc, tPHLc);
                    (preset,clear *> q,qbar) = (tPLHpc, tPHLpc);
                    // Setup time : data to clock, only when preset and clear are 1
                    $setup(data, posedge clock &&& enable, tSU, notifier);
                    // Hold time: clock to data, only when preset and clear are 1
                    $hold(posedge clock, data &&& enable, tHD, notifier);
                    // Clock period check
                    $period(posedge clock, tPW, notifier);
                    // Pulse width : preset, clear
                    $width(negedge preset, tWPC, 0, notifier);
                    $width(negedge clear, tWPC, 0, notifier);
                    // Recovery time: clear or preset to clock
                    $recovery(posedge preset, posedge clock, tREC, notifier);
                    $recovery(posedge clear, posedge clock, tREC, notifier);
                  endspecify
                endmodule
