module t0704;
property mult_p8;
                  @(posedge clk) a ##1 b |->
                  if (c)
                    (1 |=> @(posedge clk1) d)
                  else
                    e ##1 @(posedge clk2) f ;
                endproperty
endmodule
