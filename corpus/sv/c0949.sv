module t0949;
module mh22 (input wire integer p_a, .p_b(s_b), p_c);
                  logic [5:0] s_b;
                endmodule
endmodule
