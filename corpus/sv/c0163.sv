module t0163;
typedef union { int i; shortreal f; } num; // named union type
                num n;

                initial begin
                  n.f = 0.0; // set n in floating point format
                end

                typedef struct {
                  bit isfloat;
                  union { int i; shortreal f; } n; // anonymous union type
                } tagged_st;                       // named structure
endmodule
