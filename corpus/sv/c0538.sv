module t0538;
clocking cd1 @(posedge phi1);
                  input #1step state = top.cpu1.state;
                endclocking
endmodule
