config cfg6;
                  design rtlLib.top;
                  default liblist aLib rtlLib;
                  instance top.a2 use work.cfg5:config ;
                endconfig
