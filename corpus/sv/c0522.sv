module t0522;
class IntClass;
                  int a;
                endclass

                IntClass address=new(), stack=new();

                function automatic bit watch_for_zero( IntClass p );
                  fork
                    forever @p.a begin
                      if ( p.a == 0 ) $display ("Unexpected zero");
                    end
                  join_none
                  return ( p.a == 0 );
                endfunction

                function bit start_check();
                  return ( watch_for_zero( address ) | watch_for_zero( stack ) );
                endfunction

                bit y = watch_for_zero( stack ); // illegal

                initial if ( start_check() ) $display ( "OK"); // legal

                initial fork
                  if (start_check() ) $display( "OK too"); // legal
                join_none
endmodule
