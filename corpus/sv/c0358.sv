module t0358;
initial begin : outer_block
                  for (i = 0; i < n; i = i+1) begin : inner_block
                    @clk
                      if (a == 0) // "continue" loop
                        disable inner_block ;
                    @clk
                      if (a == b) // "break" from loop
                        disable outer_block;
                  end
                end
endmodule
