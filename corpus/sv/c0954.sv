module t0954;
parameter logic [7:0] My_DataIn = 8'hFF;

                module alu (
                  output reg [7:0] alu_out,
                  output reg zero,
                  input [7:0] ain, bin,
                  input [2:0] opcode);
                  // RTL code for the alu module
                endmodule

                module accum (
                  output reg [7:0] dataout,
                  input [7:0] datain = My_DataIn,
                  input clk, rst_n = 1'b1);
                  // RTL code for the accumulator module
                endmodule

                module xtend (
                  output reg [7:0] dout,
                  input din,
                  input clk, rst = 1'b0 );
                  // RTL code for the sign-extension module
                endmodule
endmodule
