module t0646;
sequence rep_v;
                  int x = 0;
                  (a[->1], x += data)[*4] ##1 b ##1 c && (data_out == x);
                endsequence
endmodule
