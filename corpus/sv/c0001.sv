package pkg; localparam [5:0] RES = RES5[0]; endpackage
