module t0913;
initial begin
                  $dumpvars (0, top.mod1, top.mod2.net1);
                end
endmodule
