module test(out);
                  output out;
                  `define wow
                  `define nest_one
                  `define second_nest
                  `define nest_two
                  `ifdef wow
                    initial $display("wow is defined");
                    `ifdef nest_one
                      initial $display("nest_one is defined");
                      `ifdef nest_two
                        initial $display("nest_two is defined");
                      `else
                        initial $display("nest_two is not defined");
                      `endif
                    `else
                      initial $display("nest_one is not defined");
                    `endif
                  `else
                    initial $display("wow is not defined");
                    `ifdef second_nest
                      initial $display("second_nest is defined");
                    `else
                      initial $display("second_nest is not defined");
                    `endif
                  `endif
                endmodule
