module t0335;
always @(*) // equivalent to @(a or b or c or d or f)
                    y = (a & b) | (c & d) | myfunction(f);
endmodule
