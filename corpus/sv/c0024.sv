module a; localparam a = (A == 1) ? 1 - 1 : (A == 1) ? 1 - 1 : 1 - 1; endmodule
