module t0756;
module m;
                  default clocking @clk1; endclocking
                  default disable iff rst1;
                  checker c1;
                    // Inherits @clk1 and rst1
                  endchecker : c1
                  checker c2;
                    // Explicitly redefines its default values
                    default clocking @clk2; endclocking
                    default disable iff rst2;
                  endchecker : c2
                endmodule : m
endmodule
