module t0795;
class B;
                  rand bit s;
                  rand bit [31:0] d;

                  constraint c { s -> d == 0; }
                endclass
endmodule
