module t0229;
Packet p = new;
                status = p.current_status();
endmodule
