module t0288;
interface class IntfClass;
                  pure virtual function bit funcBase();
                  pure virtual function bit funcExt();
                endclass

                class BaseClass;
                  virtual function bit funcBase();
                    return (1);
                  endfunction
                endclass

                class ExtClass extends BaseClass implements IntfClass;
                  virtual function bit funcExt();
                    return (0);
                  endfunction
                endclass
endmodule
