module t0970;
module cct (stim1, stim2);
                  input stim1, stim2;
                  // instantiate mod
                  mod amod(stim1),
                  bmod(stim2);
                endmodule

                module mod (in);
                  input in;
                  always @(posedge in) begin : keep
                    logic hold;
                    hold = in;
                  end
                endmodule

                module wave;
                  logic stim1, stim2;
                  cct a(stim1, stim2); // instantiate cct
                  initial begin :wave1
                    #100 fork :innerwave
                      reg hold;
                    join
                    #150 begin
                      stim1 = 0;
                    end
                  end
                endmodule
endmodule
