module t1100;
specify
                  $setup( data, posedge clk, 10 );
                endspecify
endmodule
