module t0459;
let at_least_two(sig, rst = 1'b0) = rst || ($countones(sig) >= 2);
                logic [15:0] sig1;
                logic [3:0] sig2;
                always_comb begin
                  q1: assert (at_least_two(sig1));
                  q2: assert (at_least_two(~sig2));
                end
endmodule
