module t0476;
initial begin
                  unique if ((a==0) || (a==1)) $display("0 or 1");
                  else if (a == 2) $display("2");
                  else if (a == 4) $display("4"); // values 3,5,6,7 cause a violation report

                  priority if (a[2:1]==0) $display("0 or 1");
                  else if (a[2] == 0) $display("2 or 3");
                  else $display("4 to 7"); // covers all other possible values,
                                           // so no violation report
                end
endmodule
