module t0506;
task mytask4(input [3:0][7:0] a, b[3:0], output [3:0][7:0] y[1:0]);
                endtask
endmodule
