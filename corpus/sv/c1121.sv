config cfg4;
                  design rtlLib.top ;
                  default liblist gateLib rtlLib;
                  instance top.a2 liblist aLib;
                endconfig
