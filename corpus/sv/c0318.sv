module t0318;
parameter d = 50; // d declared as a parameter and
                logic [7:0] r;    // r declared as an 8-bit variable
                initial begin // a waveform controlled by sequential delays
                  #d r = 'h35;
                  #d r = 'hE2;
                  #d r = 'h00;
                  #d r = 'hF7;
                end
endmodule
