module t0719;
module top(input logic clk);
                  logic a,b,c;
                  sequence seq3;
                    @(posedge clk) b ##1 c;
                  endsequence
                  c1: cover property (seq3);
                endmodule
endmodule
