module driver
                  import NetsPkg::*;
                  #(parameter int delay = 30,
                              int iterations = 256)
                  (output realNet [0:1] out);
                  timeunit 1ns / 1ps;
                  real outR[1:0];
                  assign out = outR;
                  initial begin
                    outR[0] = 0.0;
                    outR[1] = 3.3;
                    for (int i = 0; i < iterations; i++) begin
                      #delay outR[0] += 0.2;
                      outR[1] -= 0.2;
                    end
                  end
                endmodule : driver
