module t0487;
initial begin
                  bit [2:0] a;
                  unique case(a) // values 3,5,6,7 cause a violation report
                    0,1: $display("0 or 1");
                    2: $display("2");
                    4: $display("4");
                  endcase

                  priority casez(a) // values 4,5,6,7 cause a violation report
                    3'b00?: $display("0 or 1");
                    3'b0??: $display("2 or 3");
                  endcase

                  unique0 case(a) // values 3,5,6,7 do not cause a violation report
                    0,1: $display("0 or 1");
                    2: $display("2");
                    4: $display("4");
                  endcase
                end
endmodule
