module t0299;
interface class IntfBaseA;
                  pure virtual function bit funcBase();
                endclass

                interface class IntfBaseB;
                  pure virtual function string funcBase();
                endclass

                class ClassA implements IntfBaseA, IntfBaseB;
                  virtual function bit funcBase();
                    return (0);
                  endfunction
                endclass
endmodule
