module t1004;
module memMod (interface a, input logic clk);
                endmodule

                module cpuMod(interface b, input logic clk);
                endmodule

                interface simple_bus; // Define the interface
                  logic req, gnt;
                  logic [7:0] addr, data;
                  logic [1:0] mode;
                  logic start, rdy;
                endinterface: simple_bus

                module top;
                  logic clk = 0;

                  simple_bus sb_intf(); // Instantiate the interface

                  // Reference the sb_intf instance of the simple_bus
                  // interface from the generic interfaces of the
                  // memMod and cpuMod modules
                  memMod mem (.a(sb_intf), .clk(clk));
                  cpuMod cpu (.b(sb_intf), .clk(clk));
                endmodule
endmodule
