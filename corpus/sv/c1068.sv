module t1068;
trireg (large) #(0,0,50) cap1;
endmodule
