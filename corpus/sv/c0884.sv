module t0884;
generate
                  if ($bits(vect) == 1) begin : err $error("Only a 1-bit vector"); end
                  for (genvar i = 0; i < $bits(vect); i++) begin : Loop
                    if (i==0) begin : Cond
                      sequence t; vect[0]; endsequence
                      $info("i=0 branch generated");
                    end : Cond
                    else begin : Cond
                      sequence t; vect[i] ##1 Loop[i-1].Cond.t; endsequence
                      $info("i = %0d branch generated", i);
                    end : Cond
                  end : Loop
                endgenerate

                // instantiate the last generated sequence in a property
                property p;
                  @(posedge clk) trig |-> Loop[$bits(vect)-1].Cond.t;
                endproperty
endmodule
