module t0679;
property p_delay(logic [1:0] delay);
                  case (delay)
                    2'd0 : a && b;
                    2'd1 : a ##2 b;
                    2'd2 : a ##4 b;
                    2'd3 : a ##8 b;
                    default: 0; // cause a failure if delay has x or z values
                  endcase
                endproperty
endmodule
