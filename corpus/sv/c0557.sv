module t0557;
initial begin
                  @(posedge ram_bus.enable);
                end
endmodule
