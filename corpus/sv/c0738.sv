module t0738;
module m(logic a, b, c, d, rst1, clk1, clk2);
                  logic rst;

                  a1: assert property (@(negedge clk1) disable iff (rst1)
                                       a ##0 b[->1] |=> c);

                  a2: assert property (@(posedge clk1) disable iff (1'b0)
                                       a ##0 b[->1] |=> c);

                  always @(posedge clk2 or posedge rst) begin
                  end

                  a3: assert property
                    (
                      @(posedge clk2) disable iff (rst1)
                      (a ##0 b[->1]) |=> c
                    );

                  a4: assert property (@(negedge clk2) a ##1 @(negedge clk1) b |=>
                    @(posedge clk1) c ##1 d);
                endmodule
endmodule
