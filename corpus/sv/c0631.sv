module t0631;
a2: assume property(@($global_clock)
                            $falling_gclk(clk) ##1 (!$falling_gclk(clk)[*1:$]) |->
                                                                  $steady_gclk(sig));
endmodule
