module t1000;
myinterface #(100) scalar1(), vector[9:0]();
endmodule
