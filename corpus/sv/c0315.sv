module t0315;
final
                  begin
                    $display("Number of cycles executed %d",$time/period);
                    $display("Final PC = %h",PC);
                  end
endmodule
