module t0275;
class stack #(type T = int);
                  local T items[];
                  task push( T a ); endtask
                  task pop( ref T a ); endtask
                endclass
endmodule
