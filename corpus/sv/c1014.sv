module t1014;
interface simple_bus (input logic clk); // Define the interface
                  logic req, gnt;
                  logic [7:0] addr, data;
                  logic [1:0] mode;
                  logic start, rdy;
                  modport slave (input req, addr, mode, start, clk,
                                 output gnt, rdy,
                                 ref data);
                  modport master(input gnt, rdy, clk,
                                 output req, addr, mode, start,
                                 ref data);
                endinterface: simple_bus

                module memMod(interface a); // Uses just the interface
                  logic avail;
                  always @(posedge a.clk) // the clk signal from the interface
                    a.gnt <= a.req & avail; // the gnt and req signal in the interface
                endmodule

                module cpuMod(interface b);
                endmodule

                module top;
                  logic clk = 0;

                  simple_bus sb_intf(clk); // Instantiate the interface

                  memMod mem(sb_intf.slave); // Connect the modport to the module instance
                  cpuMod cpu(sb_intf.master);
                endmodule
endmodule
