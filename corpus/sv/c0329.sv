module t0329;
initial begin
                  #10 rega = regb;
                end
endmodule
