module t0162;
packet1 pi = '{1,2,'{2,3,4,5}}; //suppresses the typedef initialization
endmodule
