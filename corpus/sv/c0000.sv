module test(out);
                  `define nest_two
                  `ifdef wow
                    initial $display("wow is defined");
                  `else
                    initial $display("wow is not defined");
                  `endif
                endmodule
