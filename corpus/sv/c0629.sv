module t0629;
a1: assert property (@clk $future_gclk(a || $rising_gclk(b)));
                sequence s;
                  bit v;
                  (a, v = a) ##1 (b == v)[->1];
                endsequence : s

                // Illegal: a global clocking future sampled value function shall not
                // be used in an assertion containing sequence match items
                a2: assert property (@clk s |=> $future_gclk(c));
endmodule
