module a; initial begin #1 ps[idx] = 1'b1; end endmodule
