config cfg3;
                  design rtlLib.top ;
                  default liblist aLib rtlLib;
                  cell m use gateLib.m ;
                endconfig
