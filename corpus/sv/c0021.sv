module a; assign a = a[$clog2(a)'(a)]; endmodule
