config cfg5;
                  design aLib.adder;
                  default liblist gateLib aLib;
                  instance adder.f1 liblist rtlLib;
                endconfig
