module t0107;
enum { register[2] = 1, register[2:4] = 10 } vr;
endmodule
