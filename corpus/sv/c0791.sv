module t0791;
class C;
                  rand byte A[] ;

                  constraint C1 { foreach ( A [ i ] ) A[i] inside {2,4,8,16}; }
                  constraint C2 { foreach ( A [ j ] ) A[j] > 2 * j; }
                endclass
endmodule
