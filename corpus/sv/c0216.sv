module t0216;
initial begin
                  for ( int j = 0; j < Q.size; j++ ) $display( Q[j] );
                end
endmodule
