module t0501;
initial begin
                  clock1 <= 0;
                  clock2 <= 0;
                  fork
                    forever #10 clock1 = ~clock1;
                    #5 forever #10 clock2 = ~clock2;
                  join
                end
endmodule
