module t0181;
int i = bitvec[j +: k]; // k must be constant.
                int a[x:y], b[y:z], e;
                a = {b[c -: d], e};     // d must be constant
endmodule
