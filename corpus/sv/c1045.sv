module t1045;
module addergen1 (co, sum, a, b, ci);
                  parameter SIZE = 4;
                  output [SIZE-1:0] sum;
                  output co;
                  input [SIZE-1:0] a, b;
                  input ci;
                  wire [SIZE :0] c;
                  wire [SIZE-1:0] t [1:3];
                  genvar i;

                  assign c[0] = ci;

                  // Hierarchical gate instance names are:
                  // xor gates: bitnum[0].g1 bitnum[1].g1 bitnum[2].g1 bitnum[3].g1
                  // bitnum[0].g2 bitnum[1].g2 bitnum[2].g2 bitnum[3].g2
                  // and gates: bitnum[0].g3 bitnum[1].g3 bitnum[2].g3 bitnum[3].g3
                  // bitnum[0].g4 bitnum[1].g4 bitnum[2].g4 bitnum[3].g4
                  // or gates: bitnum[0].g5 bitnum[1].g5 bitnum[2].g5 bitnum[3].g5
                  // Generated instances are connected with
                  // multidimensional nets t[1][3:0] t[2][3:0] t[3][3:0]
                  // (12 nets total)

                  for(i=0; i<SIZE; i=i+1) begin:bitnum
                    xor g1 ( t[1][i], a[i], b[i]);
                    xor g2 ( sum[i], t[1][i], c[i]);
                    and g3 ( t[2][i], a[i], b[i]);
                    and g4 ( t[3][i], t[1][i], c[i]);
                    or  g5 ( c[i+1], t[2][i], t[3][i]);
                  end

                  assign co = c[SIZE];
                endmodule
endmodule
