module t0530;
function int fun( int j = 1, string s = "no" );
                endfunction
endmodule
