module t0661;
let data_end_exp = data_phase && ready_exp;
                property data_end_rule1;
                  @(posedge mclk)
                  data_end_exp |-> ##[1:2] $rose(frame) ##1 $rose(irdy);
                endproperty
                a2: assert property(data_end_rule1);
endmodule
