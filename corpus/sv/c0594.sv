module t0594;
module m (input a, b);
                  always_comb begin
                    a1: assert #0 (a == b);
                  end
                endmodule
endmodule
