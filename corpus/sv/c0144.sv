module t0144;
logic [7:0] regA;
                logic signed [7:0] regS;

                regA = unsigned'(-4); // regA = 8'b11111100
                regS = signed'(4'b1100); // regS = -4
endmodule
