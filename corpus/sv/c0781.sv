module t0781;
task exercise_bus (MyBus bus);
                  int res;

                  // EXAMPLE 1: restrict to low addresses
                  res = bus.randomize() with {atype == low;};

                  // EXAMPLE 2: restrict to address between 10 and 20
                  res = bus.randomize() with {10 <= addr && addr <= 20;};

                  // EXAMPLE 3: restrict data values to powers-of-two
                  res = bus.randomize() with {(data & (data - 1)) == 0;};
                endtask
endmodule
