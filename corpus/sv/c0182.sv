module t0182;
bit [3:0] nibble[]; // Dynamic array of 4-bit vectors
                integer mem[2][];   // Fixed-size unpacked array composed
                                    // of 2 dynamic subarrays of integers
endmodule
