module t0832;
initial begin
                  randsequence()
                    TOP : P1 P2 ;
                    P1  : A B C ;
                    P2  : A { if( flag == 1 ) return; } B C ;
                    A   : { $display( "A" ); } ;
                    B   : { if( flag == 2 ) return; $display( "B" ); } ;
                    C   : { $display( "C" ); } ;
                  endsequence
                end
endmodule
