module t0284;
interface class A;
                endclass

                class B implements A;
                endclass

                class C extends B;
                endclass
endmodule
