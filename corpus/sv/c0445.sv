module t0445;
initial begin
                  answer = (a + b + 0) >> 1; // will work correctly
                end
endmodule
