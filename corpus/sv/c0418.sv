module t0418;
module ashift;
                  logic signed [3:0] start, result;
                  initial begin
                    start = 4'b1000;
                    result = (start >>> 2);
                  end
                endmodule
endmodule
