module t0822;
class C3;
                  function new (integer seed);
                    //set a new seed for this instance
                    this.srandom(seed);
                  endfunction
                endclass
endmodule
