module t0759;
checker check_in_context (logic test_sig,
                                          event clock = $inferred_clock,
                                          logic reset = $inferred_disable);
                  property p(logic sig);
                    a;
                  endproperty
                  a1: assert property (@clock disable iff (reset) p(test_sig));
                  c1: cover property (@clock !reset throughout !test_sig ##1 test_sig);
                endchecker : check_in_context

                module m(logic rst);
                  wire clk;
                  logic a, en;
                  wire b = a && en;
                  // No context inference
                  check_in_context my_check1(.test_sig(b), .clock(clk), .reset(rst));
                  always @(posedge clk) begin
                    if (en) begin
                      // inferred from context:
                      // .clock(posedge clk)
                      // .reset(1'b0)
                      check_in_context my_check2(a);
                    end
                  end
                endmodule : m
endmodule
