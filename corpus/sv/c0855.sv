module t0855;
bit [31:0] a_var;
                bit [3:0] b_var;

                covergroup cov3 @(posedge clk);
                  A: coverpoint a_var { bins yy[] = { [0:9] }; }
                  CC: cross b_var, A;
                endgroup
endmodule
