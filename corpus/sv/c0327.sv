module t0327;
initial begin: blockB // block name after the begin or fork
                end: blockB
endmodule
