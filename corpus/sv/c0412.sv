module t0412;
initial begin
                  if ((a=b)) b = (a+=1);

                  a = (b = (c = 5));
                end
endmodule
