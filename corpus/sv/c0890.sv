module t0890;
module top;
                  initial $system("mv design.v adder.v");
                endmodule
endmodule
