module t0819;
initial begin
                  bit [64:1] addr;
                  bit [ 3:0] number;
                  addr[32:1] = $urandom( 254 ); // Initialize the generator,
                                                // get 32-bit random number
                  addr = {$urandom, $urandom }; // 64-bit random number
                  number = $urandom & 15;       // 4-bit random number
                end
endmodule
