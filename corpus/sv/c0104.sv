module t0104;
enum bit [3:0] {bronze='h3, silver, gold='h5} medal2;

                // Correct declaration - bronze and gold sizes are redundant
                enum bit [3:0] {bronze=4'h3, silver, gold=4'h5} medal3;

                // Error in the bronze and gold member declarations
                enum bit [3:0] {bronze=5'h13, silver, gold=3'h5} medal4;

                // Error in c declaration, requires at least 2 bits
                enum bit [0:0] {a,b,c} alphabet;
endmodule
