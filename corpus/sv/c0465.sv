module t0465;
module top;
                  logic a, b;
                  let x = a || b;
                  sequence s;
                    x ##1 b;
                  endsequence : s
                endmodule : top
endmodule
