module t0965;
module part1();
                  module and2(input a, b, output z);
                  endmodule
                  module or2(input a, b, output z);
                  endmodule
                  and2 u1(), u2(), u3();
                endmodule
endmodule
