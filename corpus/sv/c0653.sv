module t0653;
sequence s4;
                  int x;
                  (a ##1 (b, x = data) ##1 c) or (d ##1 (e==x)); // illegal
                endsequence
endmodule
