module t0214;
byte q1[$];                  // A queue of bytes
                string names[$] = { "Bob" }; // A queue of strings with one element
                integer Q[$] = { 3, 2, 7 };  // An initialized queue of integers
                bit q2[$:255];               // A queue whose maximum size is 256 bits
endmodule
