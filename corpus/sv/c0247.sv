module t0247;
Packet p1;
                Packet p2;
                p1 = new;
                p2 = new p1;
endmodule
