module t0089;
str = "123";
                int i = str.atoi(); // assigns 123 to i.
endmodule
