module t0392;
module mod1;

                  typedef struct {
                    int x;
                    int y;
                  } st;

                  st s1;
                  int k = 1;

                  initial begin
                    #1 s1 = '{1, 2+k};        // by position
                    #1 $display( s1.x, s1.y);
                    #1 s1 = '{x:2, y:3+k};    // by name
                    #1 $display( s1.x, s1.y);
                    #1 $finish;
                  end
                endmodule
endmodule
