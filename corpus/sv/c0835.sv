module t0835;
initial begin
                  int cnt;
                  randsequence( A )
                    void A  : A1 A2;
                    void A1 : { cnt = 1; } B repeat(5) C B
                            { $display("c=%d, b1=%d, b2=%d", C, B[1], B[2]); }
                            ;
                    void A2 : if (cond) D(5) else D(20)
                            { $display("d1=%d, d2=%d", D[1], D[2]); }
                            ;
                    int B   : C { return C;}
                            | C C { return C[2]; }
                            | C C C { return C[3]; }
                            ;
                    int C   : { cnt = cnt + 1; return cnt; };
                    int D (int prm) : { return prm; };
                  endsequence
                end
endmodule
