module t0567;
module m;
                  bit a = 1'b1;
                  default clocking cb @(posedge clk);
                    output a;
                  endclocking

                  initial begin
                    ## 1;
                    cb.a <= 1'b0;
                    @(x); // x is triggered by reactive stimulus running in same time step
                    cb.a <= 1'b1;
                  end
                endmodule
endmodule
