module t0340;
always @* begin // same as @(state or go or ws)
                  next = 4'b0;
                  case (1'b1)
                    state[IDLE]: if (go)  next[READ] = 1'b1;
                                 else     next[IDLE] = 1'b1;
                    state[READ]:          next[DLY ] = 1'b1;
                    state[DLY ]: if (!ws) next[DONE] = 1'b1;
                                 else     next[READ] = 1'b1;
                    state[DONE]:          next[IDLE] = 1'b1;
                  endcase
                end
endmodule
