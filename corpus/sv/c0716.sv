module t0716;
a1:assume property (@(posedge clk) req dist {0:=40, 1:=60} );
                assume_req1:assume property (pr1);
                assume_req2:assume property (pr2);
                assume_req3:assume property (pr3);

                assert_ack1:assert property (pa1)
                  else $error("ack asserted while req is still deasserted");
                assert_ack2:assert property (pa2)
                  else $error("ack is extended over more than one cycle");
endmodule
