module t0394;
ab abkey[1:0] = '{'{a:1, b:1.0}, '{int:2, shortreal:2.0}};
endmodule
