module t0313;
always_latch
                  if(ck) q <= d;
endmodule
