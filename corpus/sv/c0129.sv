module t0129;
typedef bit node;    // 'bit' and 'node' are matching types
                typedef type1 type2; // 'type1' and 'type2' are matching types
endmodule
