module t0579;
initial begin
                  bit success;
                  wait_order( a, b, c ) success = 1; else success = 0;
                end
endmodule
