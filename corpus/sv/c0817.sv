module t0817;
class stimc;
                  rand bit [15:0] addr;
                  rand bit [31:0] data;
                  rand bit rd_wr;
                endclass

                function bit gen_stim( stimc p );
                  bit [15:0] addr;
                  bit [31:0] data;
                  bit success;
                  success = p.randomize();
                  addr = p.addr;
                  data = p.data;
                  return p.rd_wr;
                endfunction
endmodule
