module t0448;
initial begin
                  logic [7:0] regA, regB;
                  logic signed [7:0] regS;

                  regA = $unsigned(-4);                 // regA = 8'b11111100
                  regB = $unsigned(-4'sd4);             // regB = 8'b00001100
                  regS = $signed (4'b1100);             // regS = -4

                  regA = unsigned'(-4);                 // regA = 8'b11111100
                  regS = signed'(4'b1100);              // regS = -4

                  regS = regA + regB;                   // will do unsigned addition
                  regS = byte'(regA) + byte'(regB);     // will do signed addition
                  regS = signed'(regA) + signed'(regB); // will do signed addition
                  regS = $signed(regA) + $signed(regB); // will do signed addition
                end
endmodule
