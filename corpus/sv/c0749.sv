module t0749;
program tst;
                  initial begin
                    # 200ms;
                    expect( @(posedge clk) a ##1 b ##1 c ) else $error( "expect failed" );
                  end
                endprogram
endmodule
