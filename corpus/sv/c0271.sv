module t0271;
typedef real T;

                class C;
                  typedef int T;
                  extern function T f();
                  extern function real f2();
                endclass

                function C::T C::f(); // the return must use the class scope resolution
                                      // operator, since the type is defined within the
                                      // class
                  return 1;
                endfunction

                function real C::f2();
                  return 1.0;
                endfunction
endmodule
