module t0450;
initial begin
                  typedef union tagged {
                    void Invalid;
                    int Valid;
                  } VInt;

                  VInt vi1, vi2;

                  vi1 = tagged Valid (23+34); // Create Valid int
                  vi2 = tagged Invalid;       // Create an Invalid value
                end
endmodule
