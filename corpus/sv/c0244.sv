module t0244;
Packet p1;
endmodule
