module t0549;
clocking cb @(negedge clk);
                  input v;
                endclocking

                always @(cb) $display(cb.v);

                always @(negedge clk) $display(cb.v);
endmodule
