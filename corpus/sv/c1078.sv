module t1078;
specify
                  specparam tRise_clk_q = 150, tFall_clk_q = 200;
                  specparam tSetup = 70;

                  (clk => q) = (tRise_clk_q, tFall_clk_q);

                  $setup(d, posedge clk, tSetup);
                endspecify
endmodule
