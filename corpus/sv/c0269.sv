module t0269;
class Outer;
                  int outerProp;
                  local int outerLocalProp;
                  static int outerStaticProp;
                  static local int outerLocalStaticProp;
                  class Inner;
                    function void innerMethod(Outer h);
                      outerStaticProp = 0;
                        // Legal, same as Outer::outerStaticProp
                      outerLocalStaticProp = 0;
                        // Legal, nested classes may access local's in outer class
                      outerProp = 0;
                        // Illegal, unqualified access to non-static outer
                      h.outerProp = 0;
                        // Legal, qualified access.
                      h.outerLocalProp = 0;
                        // Legal, qualified access and locals to outer class allowed.
                    endfunction
                  endclass
                endclass
endmodule
