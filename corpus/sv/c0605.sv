module t0605;
sequence s20_1(data,en);
                  (!frame && (data==data_bus)) ##1 (c_be[0:3] == en);
                endsequence
endmodule
