module t0046;
ab abarr[1:0] = '{'{1, 1.0}, '{2, 2.0}};
endmodule
