module t1094;
specify
                  $timeskew (posedge CP &&& MODE, negedge CPN, 50, , event_based_flag,
                             remain_active_flag);
                endspecify
endmodule
