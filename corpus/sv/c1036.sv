package p;
                  int x;
                endpackage

                package p2;
                  int x;
                endpackage

                module top;
                  import p::*;     // line 1
                  if (1) begin : b
                    initial x = 1; // line 2
                    import p2::*;  // line 3
                  end
                endmodule
