module t0170;
logic [7:0] mema [0:255]; // declares a memory array of 256 8-bit
                                          // elements. The array indices are 0 to 255

                mema[5] = 0;              // Write to word at address 5

                data = mema[addr];        // Read word at address indexed by addr
endmodule
