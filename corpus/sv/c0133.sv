module t0133;
typedef byte MEM_BYTES [256];
                typedef bit signed [7:0] MY_MEM_BYTES [256]; // MY_MEM_BYTES matches
                                                             // MEM_BYTES

                typedef logic [1:0] [3:0] NIBBLES;
                typedef logic [7:0] MY_BYTE; // MY_BYTE and NIBBLES are not matching types

                typedef logic MD_ARY [][2:0];
                typedef logic MD_ARY_TOO [][0:2]; // Does not match MD_ARY
endmodule
