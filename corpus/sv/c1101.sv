module t1101;
specify
                  $setup( data, posedge clk &&& clr, 10 ) ;
                endspecify
endmodule
