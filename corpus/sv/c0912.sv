module t0912;
initial begin
                  $dumpvars (1, top);
                end
endmodule
