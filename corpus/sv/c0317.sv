module t0317;
initial begin
                  areg = breg;
                  @(posedge clock) creg = areg; // assignment delayed until
                end                             // posedge on clock
endmodule
