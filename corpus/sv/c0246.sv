module t0246;
Packet p2;
                p2 = p1;
endmodule
