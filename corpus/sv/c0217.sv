module t0217;
initial begin
                  int q[$] = { 2, 4, 8 };
                  int e, pos;
                  // assignment                    // method call yielding the
                  //                               // same value in variable q
                  // ----------------------------- // -------------------------
                  q = { q, 6 };                    // q.push_back(6)
                  q = { e, q };                    // q.push_front(e)
                  q = q[1:$];                      // void'(q.pop_front()) or q.delete(0)
                  q = q[0:$-1];                    // void'(q.pop_back()) or
                                                   // q.delete(q.size-1)
                  q = { q[0:pos-1], e, q[pos:$] }; // q.insert(pos, e)
                  q = { q[0:pos], e, q[pos+1:$] }; // q.insert(pos+1, e)
                  q = {};                          // q.delete()
                end
endmodule
