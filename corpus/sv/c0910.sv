module t0910;
module goodtasks;
                  STRING str;
                  integer i1;
                  logic [31:0] vect;
                  real realvar;

                  initial
                    begin
                      if ($value$plusargs("TEST=%d", i1))
                        $display("value was %d", i1);
                      else
                        $display("+TEST= not found");
                      #100 $finish;
                    end
                endmodule

                module ieee1364_example;
                  real frequency;
                  logic [8*32:1] testname;
                  logic [64*8:1] pstring;
                  logic clk;

                  initial
                    begin
                      if ($value$plusargs("TESTNAME=%s",testname))
                        begin
                          $display(" TESTNAME= %s.",testname);
                          $finish;
                        end

                      if (!($value$plusargs("FREQ+%0F",frequency)))
                        frequency = 8.33333; // 166 MHz
                      $display("frequency = %f",frequency);

                      pstring = "TEST%d";
                      if ($value$plusargs(pstring, testname))
                        $display("Running test number %0d.",testname);
                    end
                endmodule
endmodule
