module t0106;
typedef enum { add=10, sub[5], jmp[6:8] } E1;
endmodule
