module t0866;
covergroup p_cg with function sample(bit a, int x);
                  coverpoint x;
                  cross x, a;
                endgroup : p_cg

                p_cg cg1 = new;

                property p1;
                  int x;
                  @(posedge clk)(a, x = b) ##1 (c, cg1.sample(a, x));
                endproperty : p1

                c1: cover property (p1);

                function automatic void F(int j);
                  bit d;
                  cg1.sample( d, j );
                endfunction
endmodule
