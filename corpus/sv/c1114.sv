module t1114;
specparam cap = 0;
                specify
                  (A => Z) = 1.4 * cap + 0.7;
                endspecify
endmodule
