module t0953;
module generic_decoder
                  #(num_code_bits = 3, localparam num_out_bits = 1 << num_code_bits)
                   (input [num_code_bits-1:0] A, output reg [num_out_bits-1:0] Y);
                endmodule
endmodule
