module t0782;
task exercise_illegal(MyBus bus, int cycles);
                  int res;

                  // Disable word alignment constraint.
                  bus.word_align.constraint_mode(0);

                  repeat (cycles) begin
                    // CASE 1: restrict to small addresses.
                    res = bus.randomize() with {addr[0] || addr[1];};
                  end

                  // Reenable word alignment constraint
                  bus.word_align.constraint_mode(1);
                endtask
endmodule
