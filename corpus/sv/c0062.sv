module t0062;
wire w = vara & varb;       // net with a continuous assignment

                logic v = consta & constb;  // variable with initialization

                logic vw;                   // no initial assignment
                assign vw = vara & varb;    // continuous assignment to a variable

                real circ;
                assign circ = 2.0 * PI * R; // continuous assignment to a variable
endmodule
