module t0585;
time t;

                always @(posedge clk)
                  if (state == REQ)
                    assert (req1 || req2)
                    else begin
                      t = $time;
                      #5 $error("assert failed at time %0t",t);
                    end
endmodule
