module t0122;
specify
                  specparam tRise_clk_q = 150, tFall_clk_q = 200;
                  specparam tRise_control = 40, tFall_control = 50;
                endspecify
endmodule
