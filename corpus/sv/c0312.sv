module t0312;
always_comb
                begin
                  a = b & c;
                  A1:assert (a != e) else if (!disable_error) $error("failed");
                end
endmodule
