module t0140;
var type(a+b) c, d;
                c = type(i+3)'(v[15:0]);
endmodule
