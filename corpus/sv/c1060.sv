module t1060;
tranif1 t1 (inout1,inout2,control);
endmodule
