module t0842;
class Helper;
                  int m_ev;
                endclass

                class MyClass;
                  Helper m_obj;
                  int m_a;
                  covergroup Cov @(m_obj.m_ev);
                    coverpoint m_a;
                  endgroup

                  function new();
                    m_obj = new;

                    Cov = new; // Create embedded covergroup after creating m_obj
                  endfunction
                endclass
endmodule
