module t0641;
sequence e3(sequence a, untyped b);
                  @(posedge sysclk) a.triggered ##1 b;
                endsequence

                sequence rule3;
                  @(posedge sysclk) reset ##1 e3(ready ##1 proc1, proc2) ##1 branch_back;
                endsequence
endmodule
