module t0780;
typedef enum {low, mid, high} AddrType;
                class MyBus extends Bus;
                  rand AddrType atype;
                  constraint addr_range
                  {
                    (atype == low ) -> addr inside {  [0 : 15] };
                    (atype == mid ) -> addr inside { [16 : 127]};
                    (atype == high) -> addr inside {[128 : 255]};
                  }
                endclass
endmodule
