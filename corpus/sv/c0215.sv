module t0215;
typedef mytype element_t; // mytype is any legal type for a queue
                typedef element_t queue_t[$];
                element_t e;
                queue_t Q;
                int i;
endmodule
