module t0248;
class baseA ;
                  integer j = 5;
                endclass

                class B ;
                  integer i = 1;
                  baseA a = new;
                endclass
                class xtndA extends baseA;
                  rand int x;
                  constraint cst1 { x < 10; }
                endclass

                function integer test;
                  xtndA xtnd1;
                  baseA base2, base3;
                  B b1 = new;        // Create an object of class B
                  B b2 = new b1;     // Create an object that is a copy of b1
                  b2.i = 10;         // i is changed in b2, but not in b1
                  b2.a.j = 50;       // change a.j, shared by both b1 and b2
                  test = b1.i;       // test is set to 1 (b1.i has not changed)
                  test = b1.a.j;     // test is set to 50 (a.j has changed)
                  xtnd1 = new;       // create a new instance of class xtndA
                  xtnd1.x = 3;
                  base2 = xtnd1;     // base2 refers to the same object as xtnd1
                  base3 = new base2; // Creates a shallow copy of xtnd1
                endfunction
endmodule
