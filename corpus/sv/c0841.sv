module t0841;
class MC;
                  logic [3:0] m_x;
                  local logic m_z;
                  bit m_e;
                  covergroup cv1 @(posedge clk); coverpoint m_x; endgroup
                  covergroup cv2 @m_e ; coverpoint m_z; endgroup
                endclass
endmodule
