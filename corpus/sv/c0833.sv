module t0833;
initial begin
                  randsequence( main )
                    main                     : first second gen ;
                    first                    : add | dec ;
                    second                   : pop | push ;
                    add                      : gen("add") ;
                    dec                      : gen("dec") ;
                    pop                      : gen("pop") ;
                    push                     : gen("push") ;
                    gen( string s = "done" ) : { $display( s ); } ;
                  endsequence
                end
endmodule
