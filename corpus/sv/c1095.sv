module t1095;
specify
                  $fullskew (posedge CP &&& MODE, negedge CPN, 50, 70,, event_based_flag,
                             remain_active_flag);
                endspecify
endmodule
