module t0944;
module test (
                  input [7:0] a,
                  input signed [7:0] b, c, d, // Multiple ports that share all
                                              // attributes can be declared together.
                  output [7:0] e,             // Every attribute of the declaration
                                              // must be in the one declaration.
                  output var signed [7:0] f, g,
                  output signed [7:0] h) ;

                  // It is illegal to redeclare any ports of
                  // the module in the body of the module.
                endmodule
endmodule
