module t0881;
initial begin
                  integer result;
                  result = $clog2(n);
                end
endmodule
