module t0094;
typedef enum type_identifier;
                typedef struct type_identifier;
                typedef union type_identifier;
                typedef class type_identifier;
                typedef interface class type_identifier;
                typedef type_identifier;
endmodule
