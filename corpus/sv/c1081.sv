module t1081;
specify
                  ( posedge clk => ( q[0] : data ) ) = (10, 5);
                  ( negedge clk => ( q[0] : data ) ) = (20, 12);
                endspecify
endmodule
