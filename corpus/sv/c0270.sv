module t0270;
class Packet;
                  Packet next;
                  function Packet get_next();// single line
                    get_next = next;
                  endfunction

                  // out-of-body (extern) declaration
                  extern protected virtual function int send(int value);
                endclass

                function int Packet::send(int value);
                  // dropped protected virtual, added Packet::
                  // body of method
                endfunction
endmodule
