module t0977;
task t;
                  logic s;
                  begin : b
                    logic r;
                    t.b.r = 0;// These three lines access the same variable r
                    b.r = 0;
                    r = 0;
                    t.s = 0;// These two lines access the same variable s
                    s = 0;
                  end
                endtask
endmodule
