module t0725;
always @(posedge clk) begin
                  int i = 10;
                  for (i=0; i<10; i++) begin
                    a1: assert property (foo[i] && bar[i]);
                    a2: assert property (foo[const'(i)] && bar[i]);
                    a3: assert property (foo[const'(i)] && bar[const'(i)]);
                  end
                end
endmodule
