module t0565;
clocking cb @(posedge clk);
                  inout a;
                  output b;
                endclocking

                initial begin
                  cb.a <= c;    // The value of a will change in the Re-NBA region
                  cb.b <= cb.a; // b is assigned the value of a before the change
                end
endmodule
