module t0615;
cover property (@(posedge clk) x ##1 y);
endmodule
