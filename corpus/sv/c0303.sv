module t0303;
interface class IntfClass;
                  pure virtual function bit funcA();
                  pure virtual function bit funcB();
                endclass

                // Partial implementation of IntfClass
                virtual class ClassA implements IntfClass;
                  virtual function bit funcA();
                    return (1);
                  endfunction
                  pure virtual function bit funcB();
                endclass

                // Complete implementation of IntfClass
                class ClassB extends ClassA;
                  virtual function bit funcB();
                    return (1);
                  endfunction
                endclass
endmodule
