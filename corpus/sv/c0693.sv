module t0693;
property rule3;
                  @(posedge clk) a[*2] |-> ((##[1:3] c) or (d |=> e));
                endproperty
endmodule
