module t0857;
bit [7:0] v_a, v_b;

                covergroup cg @(posedge clk);
                  a: coverpoint v_a
                  {
                    bins a1 = { [0:63] };
                    bins a2 = { [64:127] };
                    bins a3 = { [128:191] };
                    bins a4 = { [192:255] };
                  }

                  b: coverpoint v_b
                  {
                    bins b1 = {0};
                    bins b2 = { [1:84] };
                    bins b3 = { [85:169] };
                    bins b4 = { [170:255] };
                  }

                  c : cross a, b
                  {
                    bins c1 = ! binsof(a) intersect {[100:200]};// 4 cross products
                    bins c2 = binsof(a.a2) || binsof(b.b2);// 7 cross products
                    bins c3 = binsof(a.a1) && binsof(b.b4);// 1 cross product
                  }
                endgroup
endmodule
