module t0421;
initial begin
                  byte a, b ;
                  bit [1:0] c ;
                  c = {a + b}[1:0]; // 2 lsb's of sum of a and b
                end
endmodule
