module t0406;
alias bus16 = {high12[11:8], low12};
                alias bus16 = {high12, low12[3:0]};
endmodule
