module t0185;
int idest[], isrc[3] = '{5, 6, 7};
                initial begin
                  idest = new [3] (isrc); // set size and array element data values (5, 6, 7)
                end
endmodule
