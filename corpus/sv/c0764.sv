module t0764;
checker op_test (logic clk, vld_1, vld_2, logic [3:0] opcode);
                  bit [3:0] opcode_d1;

                  always_ff @(posedge clk) opcode_d1 <= opcode;

                  covergroup cg_op with function sample(bit [3:0] opcode_d1);
                    cp_op : coverpoint opcode_d1;
                  endgroup: cg_op
                  cg_op cg_op_1 = new();

                  sequence op_accept;
                    @(posedge clk) vld_1 ##1 (vld_2, cg_op_1.sample(opcode_d1));
                  endsequence
                  cover property (op_accept);
                endchecker
endmodule
