module t0497;
initial begin
                  parameter size = 8, longsize = 16;
                  logic [size:1] opa, opb;
                  logic [longsize:1] result;

                  begin : mult
                    logic [longsize:1] shift_opa, shift_opb;
                    shift_opa = opa;
                    shift_opb = opb;
                    result = 0;
                    repeat (size) begin
                      if (shift_opb[1])
                        result = result + shift_opa;
                      shift_opa = shift_opa << 1;
                      shift_opb = shift_opb >> 1;
                    end
                  end
                end
endmodule
