module t0645;
sequence data_check;
                  int x;
                  a ##1 (!a, x = data_in) ##1 !b[*0:$] ##1 b && (data_out == x);
                endsequence
                property data_check_p;
                  int x;
                  a ##1 (!a, x = data_in) |=> !b[*0:$] ##1 b && (data_out == x);
                endproperty
endmodule
