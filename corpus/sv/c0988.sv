module t0988;
class C ;
                endclass

                module M #( type T = C, T p = 4,
                            type T2, T2 p2 = 4
                          ) () ;
                endmodule
endmodule
