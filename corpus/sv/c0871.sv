module t0871;
bit [7:0] a;
                covergroup ga ( int abm);
                  option.auto_bin_max = abm;
                  coverpoint a { ignore_bins i = {3}; }
                endgroup
                ga gv1 = new (64);
                ga gv2 = new (32);
endmodule
