module t0108;
typedef enum { red, green, blue, yellow, white, black } Colors;
endmodule
