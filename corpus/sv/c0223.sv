module t0223;
class Packet ;
                  //data or class properties
                  bit [3:0] command;
                  bit [40:0] address;
                  bit [4:0] master_id;
                  integer time_requested;
                  integer time_issued;
                  integer status;
                  typedef enum { ERR_OVERFLOW = 10, ERR_UNDERFLOW = 1123} PCKT_TYPE;
                  const integer buffer_size = 100;
                  const integer header_size;

                  // initialization
                  function new();
                    command = 4'd0;
                    address = 41'b0;
                    master_id = 5'bx;
                    header_size = 10;
                  endfunction

                  // methods
                  // public access entry points
                  task clean();
                    command = 0; address = 0; master_id = 5'bx;
                  endtask

                  task issue_request( int delay );
                    // send request to bus
                  endtask

                  function integer current_status();
                    current_status = status;
                  endfunction
                endclass
endmodule
