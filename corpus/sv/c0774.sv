module t0774;
checker my_check;
                  sequence s;
                    a;
                  endsequence
                  always_ff @clk a <= s.triggered;
                endchecker
endmodule
