module t0546;
initial begin
                  ##5;       // wait 5 cycles (clocking events) using the default clocking

                  ##(j + 1); // wait j+1 cycles (clocking events) using the default clocking
                end
endmodule
