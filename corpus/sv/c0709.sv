module t0709;
property p;
                  logic v;
                  (@(posedge clk1) (1, v = e) ##0 (a == v)[*1:$] |-> b)
                  and
                  (@(posedge clk2) (1, v = e) ##0 c[*1:$] |-> d == v)
                  ;
                endproperty
endmodule
