module t0178;
logic [63:0] data;
                logic [7:0] byte2;
                byte2 = data[23:16]; // an 8-bit part-select from data
endmodule
