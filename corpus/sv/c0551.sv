module t0551;
module top;
                  subsystem1 sub1();
                  subsystem2 sub2();
                endmodule

                module subsystem1;
                  logic subclk1;
                  global clocking sub_sys1 @(subclk1); endclocking
                  common_sub common();
                endmodule

                module subsystem2;
                  logic subclk2;
                  global clocking sub_sys2 @(subclk2); endclocking
                  common_sub common();
                endmodule

                module common_sub;
                  always @($global_clock) begin
                  end
                endmodule
endmodule
