module t0416;
initial begin
                  regA = alpha && beta; // regA is set to 0
                  regB = alpha || beta; // regB is set to 1
                end
endmodule
