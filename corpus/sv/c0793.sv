module t0793;
class C;
                  rand bit [7:0] A[] ;
                  constraint c1 { A.size == 5; }
                  constraint c2 { A.sum() with (int'(item)) < 1000; }
                endclass
endmodule
