module t0675;
property p; (accept_on(a) p1) and (reject_on(b) p2); endproperty
endmodule
