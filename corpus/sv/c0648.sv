module t0648;
sequence sub_seq1;
                  int v1;
                  (a ##1 !a, v1 = data_in) ##1 !b[*0:$] ##1 b && (data_out == v1);
                endsequence
                sequence seq1;
                  c ##1 sub_seq1 ##1 (do1 == v1); // error because v1 is not visible
                endsequence
endmodule
