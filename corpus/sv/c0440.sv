module t0440;
logic [7:0] twod_array[0:255][0:255];
                wire threed_array[0:255][0:255][0:7];
endmodule
