module t1048;
module test;
                  parameter p = 0, q = 0;
                  wire a, b, c;

                  //---------------------------------------------------------
                  // Code to either generate a u1.g1 instance or no instance.
                  // The u1.g1 instance of one of the following gates:
                  // (and, or, xor, xnor) is generated if
                  // {p,q} == {1,0}, {1,2}, {2,0}, {2,1}, {2,2}, {2, default}
                  //---------------------------------------------------------
                  if (p == 1)
                    if (q == 0)
                      begin : u1            // If p==1 and q==0, then instantiate
                        and g1(a, b, c);    // AND with hierarchical name test.u1.g1
                      end
                    else if (q == 2)
                      begin : u1            // If p==1 and q==2, then instantiate
                        or g1(a, b, c);     // OR with hierarchical name test.u1.g1
                      end
                                            // "else" added to end "if (q == 2)" statement
                    else ;                  // If p==1 and q!=0 or 2, then no instantiation
                  else if (p == 2)
                    case (q)
                      0, 1, 2:
                        begin : u1          // If p==2 and q==0,1, or 2, then instantiate
                          xor g1(a, b, c);  // XOR with hierarchical name test.u1.g1
                        end
                      default:
                        begin : u1          // If p==2 and q!=0,1, or 2, then instantiate
                          xnor g1(a, b, c); // XNOR with hierarchical name test.u1.g1
                        end
                    endcase
                endmodule
endmodule
