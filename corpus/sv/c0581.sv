module t0581;
initial begin
                  fork
                    T1: forever @ E2;
                    T2: forever @ E1;
                    T3: begin
                          E2 = E1;
                          forever -> E2;
                    end
                  join
                end
endmodule
