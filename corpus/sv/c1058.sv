module t1058;
bufif1 bf1 (outw, inw, controlw);
endmodule
