module t0369;
initial begin
                  rega = 0;
                  rega[3] = 1;                // a bit-select
                  rega[3:5] = 7;              // a part-select
                  mema[address] = 8'hff;      // assignment to a mem element
                  {carry, acc} = rega + regb; // a concatenation
                end
endmodule
