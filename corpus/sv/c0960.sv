module t0960;
module alu_accum5 (
                  output [15:0] dataout,
                  input [7:0] ain, bin,
                  input [2:0] opcode,
                  input clk, rst_n);
                  wire [7:0] alu_out;

                  // mixture of named port connections and
                  // implicit .name port connections
                  alu alu (.ain(ain), .bin(bin), .alu_out, .zero(), .opcode);

                  // positional port connections
                  accum accum (dataout[7:0], alu_out, clk, rst_n);

                  // mixture of named port connections and implicit .* port connections
                  xtend xtend (.dout(dataout[15:8]), .*, .din(alu_out[7]));
                endmodule
endmodule
