module t1025;
interface PBus #(parameter WIDTH=8); // A parameterized bus interface
                  logic req, grant;
                  logic [WIDTH-1:0] addr, data;
                  modport phy(input addr, ref data);
                endinterface

                module top;
                  PBus #(16) p16();
                  PBus #(32) p32();
                  virtual PBus v8;        // legal declaration, but no legal assignments
                  virtual PBus #(35) v35; // legal declaration, but no legal assignments
                  virtual PBus #(16) v16;
                  virtual PBus #(16).phy v16_phy;
                  virtual PBus #(32) v32;
                  virtual PBus #(32).phy v32_phy;
                  initial begin
                    v16 = p16;     // legal – parameter values match
                    v32 = p32;     // legal – parameter values match
                    v16 = p32;     // illegal – parameter values don't match
                    v16 = v32;     // illegal – parameter values don't match
                    v16_phy = v16; // legal assignment from no selected modport to
                                   // selected modport
                    v16 = v16_phy; // illegal assignment from selected modport to
                                   // no selected modport
                    v32_phy = p32; // legal assignment from no selected modport to
                                   // selected modport
                    v32 = p32.phy; // illegal assignment from selected modport to
                                   // no selected modport
                  end
                endmodule
endmodule
