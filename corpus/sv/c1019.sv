module t1019;
interface simple_bus (input logic clk); // Define the interface
                  logic req, gnt;
                  logic [7:0] addr, data;
                  logic [1:0] mode;
                  logic start, rdy;

                  task masterRead(input logic [7:0] raddr); // masterRead method
                    // ...
                  endtask: masterRead

                  task slaveRead; // slaveRead method
                    // ...
                  endtask: slaveRead
                endinterface: simple_bus

                module memMod(interface a); // Uses any interface
                  logic avail;

                  always @(posedge a.clk)   // the clk signal from the interface
                    a.gnt <= a.req & avail; // the gnt and req signals in the interface

                  always @(a.start)
                    a.slaveRead;
                endmodule

                module cpuMod(interface b);
                  enum {read, write} instr;
                  logic [7:0] raddr;
                  always @(posedge b.clk)
                    if (instr == read)
                      b.masterRead(raddr); // call the Interface method
                endmodule

                module top;
                  logic clk = 0;
                  simple_bus sb_intf(clk); // Instantiate the interface
                  memMod mem(sb_intf);
                  cpuMod cpu(sb_intf);
                endmodule
endmodule
