module t0670;
property p1;
                  a until b;
                endproperty

                property p2;
                  a s_until b;
                endproperty

                property p3;
                  a until_with b;
                endproperty

                property p4;
                  a s_until_with b;
                endproperty
endmodule
