module t0814;
class Packet;
                  rand integer source_value;
                  constraint filter1 { source_value > 2 * m; }
                endclass

                function integer toggle_rand( Packet p );
                  if ( p.filter1.constraint_mode() )
                    p.filter1.constraint_mode(0);
                  else
                    p.filter1.constraint_mode(1);
                  toggle_rand = p.randomize();
                endfunction
endmodule
