module t0853;
bit [3:0] a, b;

                covergroup cov @(posedge clk);
                  aXb : cross a, b;
                endgroup
endmodule
