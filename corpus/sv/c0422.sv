module t0422;
parameter P = 32;

                // The following is legal for all P from 1 to 32

                assign b[31:0] = { {32-P{1'b1}}, a[P-1:0] } ;

                // The following is illegal for P=32 because the zero
                // replication appears alone within a concatenation

                assign c[31:0] = { {{32-P{1'b1}}}, a[P-1:0] };

                // The following is illegal for P=32

                initial
                  $displayb({32-P{1'b1}}, a[P-1:0]);
endmodule
