module t0160;
typedef struct {
                  int addr = 1 + constant;
                  int crc;
                  byte data [4] = '{4{1}};
                } packet1;
endmodule
