module t0807;
class B;
                  rand int x;
                  constraint B1 { soft x == 5; }
                  constraint B3 { soft x dist {5, 8}; }
                endclass

                initial begin
                  B b = new();
                  b.randomize();
                end
endmodule
