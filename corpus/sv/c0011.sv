module a; initial begin elements.push_back(urme_container.elements[i].clone()); end endmodule
