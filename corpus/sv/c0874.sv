`timescale 1 ms / 1 us
                module a_dat;
                  initial
                    $printtimescale(b_dat.c1);
                endmodule

                `timescale 10 fs / 1 fs
                module b_dat;
                  c_dat c1 ();
                endmodule

                `timescale 1 ns / 1 ns
                module c_dat;
                endmodule
