module t0905;
initial begin
                  $fflush ( mcd );
                  $fflush ( fd );
                  $fflush ( );
                end
endmodule
