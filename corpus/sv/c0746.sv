module t0746;
default clocking master_clk ; // master clock as defined above
                property p4; (a ##2 b); endproperty
                assert property (p4);
endmodule
