module t0100;
enum {bronze=3, silver, gold} medal; // silver=4, gold=5
endmodule
