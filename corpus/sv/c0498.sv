module t0498;
initial begin
                  string words [2] = '{ "hello", "world" };
                  int prod [1:8] [1:3];

                  foreach( words [ j ] )
                    $display( j , words[j] ); // print each index and value

                  foreach( prod[ k, m ] )
                    prod[k][m] = k * m;       // initialize
                end
endmodule
