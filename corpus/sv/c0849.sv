module t0849;
covergroup sg @(posedge clk);
                  coverpoint v
                  {
                    bins b2 = ( 2 [-> 3:5] );          // 3 to 5 nonconsecutive 2's
                    bins b3 = ( 3 [-> 3:5] );          // 3 to 5 nonconsecutive 3's
                    bins b5 = ( 5 [* 3] );             // 3 consecutive 5's
                    bins b6 = ( 1 => 3 [-> 4:6] => 1); // 1 followed by
                                                       // 4 to 6 goto nonconsecutive 3's
                                                       // followed immediately by a 1
                    bins b7 = ( 1 => 2 [= 3:6] => 5);  // 1 followed by
                                                       // 3 to 6 non consecutive 2's
                                                       // followed sometime later by a 5
                  }
                endgroup
endmodule
