module t0366;
module adder (sum_out, carry_out, carry_in, ina, inb);
                  output [3:0] sum_out;
                  output carry_out;
                  input [3:0] ina, inb;
                  input carry_in;

                  wire carry_out, carry_in;
                  wire [3:0] sum_out, ina, inb;

                  assign {carry_out, sum_out} = ina + inb + carry_in;
                endmodule
endmodule
