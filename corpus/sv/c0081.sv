module t0081;
wand w;                        // a scalar "wand" net
                tri [15:0] busa;               // a 16-bit bus
                trireg (small) storeit;        // a charge storage node of strength small
                logic a;                       // a scalar variable
                logic[3:0] v;                  // a 4-bit vector made up of (from most to
                                               // least significant)v[3], v[2], v[1], and v[0]
                logic signed [3:0] signed_reg; // a 4-bit vector in range -8 to 7
                logic [-1:4] b;                // a 6-bit vector
                wire w1, w2;                   // declares two nets
                logic [4:0] x, y, z;           // declares three 5-bit variables
endmodule
