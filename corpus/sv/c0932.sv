`line 3 "orig.v" 2
                // This line is line 3 of orig.v after exiting include file
