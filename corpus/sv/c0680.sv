module t0680;
property prop_always(p);
                  p and (1'b1 |=> prop_always(p));
                endproperty
endmodule
