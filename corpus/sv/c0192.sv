module t0192;
int A[2][100:1];
                int B[] = new[100];   // dynamic array of 100 elements
                int C[] = new[8];     // dynamic array of 8 elements
                int D [3][][];        // multidimensional array with dynamic subarrays
                initial begin
                  D[2] = new [2];     // initialize one of D's dynamic subarrays
                  D[2][0] = new [100];
                  A[1] = B;           // OK. Both are arrays of 100 ints
                  A[1] = C;           // type check error: different sizes (100 vs. 8 ints)
                  A = D[2];           // A[0:1][100:1] and subarray D[2][0:1][0:99] both
                                      // comprise 2 subarrays of 100 ints
                end
endmodule
