module t1110;
specify
                  $setuphold( clk, data, tsetup, thold, ntfr, , cond1);
                endspecify
endmodule
