module t0454;
bit [8*10:1] s1, s2;
                initial begin
                  s1 = "Hello";
                  s2 = " world!";
                  if ({s1,s2} == "Hello world!")
                    $display("strings are equal");
                end
endmodule
