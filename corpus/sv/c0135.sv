module t0135;
struct {int A; int B;} AB1, AB2; // AB1, AB2 have equivalent types
                struct {int A; int B;} AB3;      // AB3 is not type equivalent to AB1
endmodule
