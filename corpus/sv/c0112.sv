module t0112;
localparam byte colon1 = ":" ;
                specparam delay = 10 ; // specparams are used for specify blocks
                parameter logic flag = 1 ;
endmodule
