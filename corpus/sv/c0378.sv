module t0378;
initial begin
                  force a = b + f(c) ;
                end
endmodule
