module t0945;
module cpuMod(interface d, interface j);
                endmodule
endmodule
