module t0443;
initial begin
                  logic [15:0] a, b, answer; // 16-bit variables
                end
endmodule
