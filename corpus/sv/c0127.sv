module top_legal;
                  int svar1 = 1;               // static keyword optional
                  initial begin
                    for (int i=0; i<3; i++) begin
                      automatic int loop3 = 0; // executes every loop
                      for (int j=0; j<3; j++) begin
                        loop3++;
                        $display(loop3);
                      end
                    end // prints 1 2 3 1 2 3 1 2 3
                    for (int i=0; i<3; i++) begin
                      static int loop2 = 0;    // executes once at time zero
                      for (int j=0; j<3; j++) begin
                        loop2++;
                        $display(loop2);
                      end
                    end // prints 1 2 3 4 5 6 7 8 9
                  end
                endmodule : top_legal

                module top_illegal;           // should not compile
                  initial begin
                    int svar2 = 2;            // static/automatic needed to show intent
                    for (int i=0; i<3; i++) begin
                      int loop3 = 0;          // illegal statement
                      for (int i=0; i<3; i++) begin
                        loop3++;
                        $display(loop3);
                      end
                    end
                  end
                endmodule : top_illegal
