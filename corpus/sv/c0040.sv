module t0040;
byte c1 = "A" ;
endmodule
