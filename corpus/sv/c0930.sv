`timescale 10 us / 100 ns
