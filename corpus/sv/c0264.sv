module t0264;
BasePacket packets[100];
endmodule
