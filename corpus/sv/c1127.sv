import "DPI-C" function void myInit();

                // from standard math library
                import "DPI-C" pure function real sin(real);

                // from standard C library: memory management
                import "DPI-C" function chandle malloc(int size); // standard C function
                import "DPI-C" function void free(chandle ptr); // standard C function

                // abstract data structure: queue
                import "DPI-C" function chandle newQueue(input string name_of_queue);

                // Note the following import uses the same foreign function for
                // implementation as the prior import, but has different SystemVerilog name
                // and provides a default value for the argument.
                import "DPI-C" newQueue=function chandle newAnonQueue(input string s=null);
                import "DPI-C" function chandle newElem(bit [15:0]);
                import "DPI-C" function void enqueue(chandle queue, chandle elem);
                import "DPI-C" function chandle dequeue(chandle queue);

                // miscellanea
                import "DPI-C" function bit [15:0] getStimulus();
                import "DPI-C" context function void processTransaction(chandle elem,
                output logic [64:1] arr [0:63]);
                import "DPI-C" task checkResults(input string s, bit [511:0] packet);
