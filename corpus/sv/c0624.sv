module t0624;
always @(posedge clk)
                  for (int i = 0; i < 4; i ++)
                    if (cond[i])
                      reg1[i] <= $past(b[i]);
endmodule
