module t0707;
module mod_sva_checks;
                  logic a, b, c, d;
                  logic clk_a, clk_d, clk_e1, clk_e2;
                  logic clk_c, clk_p;

                  clocking cb_prog @(posedge clk_p); endclocking
                  clocking cb_checker @(posedge clk_c); endclocking

                  default clocking cb @(posedge clk_d); endclocking

                  sequence e4;
                    $rose(b) ##1 c;
                  endsequence

                  // e4 infers posedge clk_a as per clock flow rules
                  a1: assert property (@(posedge clk_a) a |=> e4.triggered);

                  sequence e5;
                    // e4 will infer posedge clk_e1 as per clock flow rules
                    // wherever e5 is instantiated (with/without a method)
                    @(posedge clk_e1) a ##[1:3] e4.triggered ##1 c;
                  endsequence

                  // e4, used in e5, infers posedge clk_e1 from e5
                  a2: assert property (@(posedge clk_a) a |=> e5.matched);

                  sequence e6(f);
                    @(posedge clk_e2) f;
                  endsequence

                  // e4 infers posedge clk_e2 as per clock flow rules
                  a3: assert property (@(posedge clk_a) a |=> e6(e4.triggered));

                  sequence e7;
                    e4 ##1 e6(d);
                  endsequence

                  // Leading clock of e7 is posedge clk_a as per clock flow rules
                  a4: assert property (@(posedge clk_a) a |=> e7.triggered);

                  // Illegal use in a disable condition, e4 is not explicitly clocked
                  a5_illegal: assert property (
                    @(posedge clk_a) disable iff (e4.triggered) a |=> b);

                  always @(posedge clk_a) begin
                    // e4 infers default clocking cb and not posedge clk_a as there is
                    // more than one event control in this procedure (16.14.6)
                    @(e4);
                    d = a;
                  end

                  program prog_e4;
                    default clocking cb_prog;
                    initial begin
                      // e4 infers default clocking cb_prog
                      wait (e4.triggered);
                      $display("e4 passed");
                    end
                  endprogram : prog_e4

                  checker check(input in1, input sequence s_f);
                    default clocking cb_checker;
                    always @(s_f)
                      $display("sequence triggered");
                    a4: assert property (a |=> in1);
                  endchecker : check

                  // e4 infers checker's default clocking cb_checker
                  check c1(e4.triggered, e4);

                  // e4 connected to port of a module instance infers default clocking cb
                  mod_adder ai1(e4.triggered);

                endmodule : mod_sva_checks
endmodule
