module ma #( parameter p1 = 1, parameter type p2 = shortint )
                           (input logic [p1:0] i, output logic [p1:0] o);
                  p2 j = 0; // type of j is set by a parameter, (shortint unless redefined)
                  always @(i) begin
                    o = i;
                    j++;
                  end
                endmodule
                module mb;
                  logic [3:0] i,o;
                  ma #(.p1(3), .p2(int)) u1(i,o); //redefines p2 to a type of int
                endmodule
