module t0880;
initial begin
                  int a[3][][5]; // array dimension 2 has variable size
                  $display( $unpacked_dimensions(a) ); // displays 3
                  a[2] = new[4];
                  a[2][2][0] = 220;           // OK, a[2][2] is a 5-element array
                  $display( $size(a, 1) );    // OK, displays 3
                  $display( $size(a, 2) );    // ERROR, dimension 2 is dynamic
                  $display( $size(a[2], 1) ); // OK, displays 4 (a[2] is
                                              // a 4-element dynamic array)
                  $display( $size(a[1], 1) ); // OK, displays 0 (a[1] is
                                              // an empty dynamic array)
                  $display( $size(a, 3) );    // OK, displays 5 (fixed-size dimension)
                end
endmodule
