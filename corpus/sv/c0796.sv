module t0796;
class B;
                  rand bit s;
                  rand bit [31:0] d;
                  constraint c { s -> d == 0; }
                  constraint order { solve s before d; }
                endclass
endmodule
