module msl;
                  int st0;               // static
                  initial begin
                    int st1;             // static
                    static int st2;      // static
                    automatic int auto1; // automatic
                  end
                  task automatic t1();
                    int auto2;           // automatic
                    static int st3;      // static
                    automatic int auto3; // automatic
                  endtask
                endmodule
