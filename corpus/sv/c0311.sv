module t0311;
always_comb
                  a = b & c;
                always_comb
                  d <= #1ns b & c;
endmodule
