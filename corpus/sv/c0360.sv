module t0360;
always begin : monostable
                  #250 q = 0;
                end

                always @retrig begin
                  disable monostable;
                  q = 1;
                end
endmodule
