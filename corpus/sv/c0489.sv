module t0489;
logic [2:0] status;
                always @(posedge clock)
                  priority case (status) inside
                  1, 3 : task1; // matches 'b001 and 'b011
                  3'b0?0, [4:7]: task2; // matches 'b000 'b010 'b0x0 'b0z0
                                        // 'b100 'b101 'b110 'b111
                  endcase // priority case fails all other values including
                          // 'b00x 'b01x 'bxxx
endmodule
