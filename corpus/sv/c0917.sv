module t0917;
module test_device(count_out, carry, data, reset);
                  output count_out, carry ;
                  input [0:3] data;
                  input reset;
                  initial
                    begin
                      $dumpports(testbench.DUT, "testoutput.vcd");
                    end
                endmodule
endmodule
