module t0990;
bind cpu fpu_props fpu_rules_1(a,b,c);
endmodule
