module t0429;
wire r;
                assign r=3'bz11 inside {3'b1?1, 3'b011}; // r = 1'bx
endmodule
