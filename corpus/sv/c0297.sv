module t0297;
put_ref = new(); // illegal
endmodule
