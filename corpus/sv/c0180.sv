module t0180;
bit signed [31:0] busA [7:0] ; // unpacked array of 8 32-bit vectors
                int busB [1:0];                // unpacked array of 2 integers
                busB = busA[7:6];              // select a 2-vector slice from busA
endmodule
