module t0425;
initial begin
                  string hello = "hello";
                  string s;
                  s = { hello, " ", "world" };
                  $display( "%s\n", s ); // displays 'hello world'
                  s = { s, " and goodbye" };
                  $display( "%s\n", s ); // displays 'hello world and goodbye'
                end
endmodule
