module t0149;
B = dest_t'(A);
endmodule
