module t0667;
implicit_always: assert property(p);
endmodule
