primitive multiplexer (mux, control, dataA, dataB);
                  output mux;
                  input control, dataA, dataB;
                  table
                    // control dataA dataB mux
                       0       1     ?    : 1 ; // ? = 0 1 x
                       0       0     ?    : 0 ;
                       1       ?     1    : 1 ;
                       1       ?     0    : 0 ;
                       x       0     0    : 0 ;
                       x       1     1    : 1 ;
                  endtable
                endprimitive
