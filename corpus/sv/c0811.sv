module t0811;
class C;
                  rand integer x;
                endclass

                function int F(C obj, integer y);
                  F = obj.randomize() with (x) { x < y; };
                endfunction
endmodule
