module t0532;
initial begin
                  //fun( .s("yes"), 2 ); // illegal
                  fun( 2, .s("yes") ); // OK
                end
endmodule
