module t0291;
interface class IntfC;
                  typedef enum {ONE, TWO, THREE} t1_t;
                  pure virtual function t1_t funcC();
                endclass : IntfC

                class ClassA implements IntfC;
                  t1_t t1_i; // error, t1_t is not inherited from IntfC
                  virtual function IntfC::t1_t funcC(); // correct
                    return (IntfC::ONE); // correct
                  endfunction : funcC
                endclass : ClassA
endmodule
