module t0896;
initial begin
                  forever @(negedge clock)
                    $strobe ("At time %d, data is %h",$time,data);
                end
endmodule
