module t0823;
class Packet;
                  rand bit[15:0] header;
                  function new (int seed);
                    this.srandom(seed);
                  endfunction
                endclass
endmodule
