module t0786;
class C;
                  rand int x;
                  constraint proto1;        // implicit form
                  extern constraint proto2; // explicit form
                endclass
endmodule
