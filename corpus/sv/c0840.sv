module t0840;
class xyz;
                  bit [3:0] m_x;
                  int m_y;
                  bit m_z;

                  covergroup cov1 @m_z; // embedded covergroup
                    coverpoint m_x;
                    coverpoint m_y;
                  endgroup

                  function new(); cov1 = new; endfunction
                endclass
endmodule
