module t0599;
assert property(@clk a);
endmodule
