module t0582;
initial begin
                  event E1 = null;
                  @ E1;                 // undefined: might block forever or not at all
                  wait( E1.triggered ); // undefined
                  -> E1;                // no effect
                end
endmodule
