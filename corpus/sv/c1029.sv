module t1029;
module dev1(A_Bus.DUT b); // Some device: Part of the design
                endmodule

                module dev2(A_Bus.DUT b); // Some device: Part of the design
                endmodule

                program T (A_Bus.STB b1, A_Bus.STB b2 ); // Testbench: 2 synchronous ports
                endprogram

                module top;
                  logic clk;
                  A_Bus b1( clk );
                  A_Bus b2( clk );
                  dev1 d1( b1 );
                  dev2 d2( b2 );
                  T tb( b1, b2 );
                endmodule
endmodule
