module t0773;
module my_mod();
                  bit mclk, v1, v2;
                  checker c1(bit fclk, bit a, bit b);
                    default clocking @ (posedge fclk); endclocking
                    checker c2(bit bclk, bit x, bit y);
                      default clocking @ (posedge bclk); endclocking
                      rand bit m, n;
                      u1: assume property (f1(x,m));
                      u2: assume property (f2(y,n));
                    endchecker
                    rand bit q, r;
                    c2 B1(fclk, q+r, r);
                    always_ff @ (posedge fclk)
                      r <= a || q; // assignment makes r inactive
                    u3: assume property (f3(a, q));
                    u4: assume property (f4(b, r));
                  endchecker
                  c1 F1(mclk, v1, const'(v2));
                endmodule
endmodule
