module t0468;
assign d[0] = (!m.a || m.b && m.c[2]);
endmodule
