module t0191;
logic [7:0] V1[10:1];
                logic [7:0] V2[10];
                wire [7:0] W[9:0]; // data type is logic [7:0] W[9:0]
                assign W = V1;
                initial #10 V2 = W;
endmodule
