module t0132;
typedef bit signed [7:0] BYTE; // matches the byte type
                typedef bit signed [0:7] ETYB; // does not match the byte type
endmodule
