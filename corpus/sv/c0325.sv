module t0325;
initial begin
                  fork
                    @Aevent;
                    @Bevent;
                  join
                  areg = breg;
                end
endmodule
