module t1023;
interface simple_bus #(AWIDTH = 8, DWIDTH = 8)
                                     (input logic clk); // Define the interface
                  logic req, gnt;
                  logic [AWIDTH-1:0] addr;
                  logic [DWIDTH-1:0] data;
                  logic [1:0] mode;
                  logic start, rdy;

                  modport slave( input req, addr, mode, start, clk,
                                 output gnt, rdy,
                                 ref data,
                                 import task slaveRead,
                                        task slaveWrite);
                    // import into module that uses the modport

                  modport master(input gnt, rdy, clk,
                                 output req, addr, mode, start,
                                 ref data,
                                 import task masterRead(input logic [AWIDTH-1:0] raddr),
                                        task masterWrite(input logic [AWIDTH-1:0] waddr));
                    // import requires the full task prototype

                  task masterRead(input logic [AWIDTH-1:0] raddr); // masterRead method
                  endtask

                  task slaveRead; // slaveRead method
                  endtask

                  task masterWrite(input logic [AWIDTH-1:0] waddr);
                  endtask

                  task slaveWrite;
                  endtask
                endinterface: simple_bus

                module memMod(interface a); // Uses just the interface keyword
                  logic avail;

                  always @(posedge a.clk) // the clk signal from the interface
                    a.gnt <= a.req & avail; //the gnt and req signals in the interface

                  always @(a.start)
                    if (a.mode[0] == 1'b0)
                      a.slaveRead;
                    else
                      a.slaveWrite;
                endmodule

                module cpuMod(interface b);
                  enum {read, write} instr;
                  logic [7:0] raddr;
                  always @(posedge b.clk)
                    if (instr == read)
                      b.masterRead(raddr); // call the Interface method
                    else
                      b.masterWrite(raddr);
                endmodule

                module top;
                  logic clk = 0;

                  simple_bus sb_intf(clk); // Instantiate default interface
                  simple_bus #(.DWIDTH(16)) wide_intf(clk); // Interface with 16-bit data

                  initial repeat(10) #10 clk++;

                  memMod mem(sb_intf.slave); // only has access to the slaveRead task
                  cpuMod cpu(sb_intf.master); // only has access to the masterRead task
                  memMod memW(wide_intf.slave); // 16-bit wide memory
                  cpuMod cpuW(wide_intf.master); // 16-bit wide cpu
                endmodule
endmodule
