module t0948;
module mh14(wire x, y[7:0]); endmodule              // inout wire logic x
                                                                    // inout wire logic y[7:0]

                module mh15(integer x, signed [5:0] y); endmodule   // inout wire integer x
                                                                    // inout wire logic signed [5:0] y

                module mh16([5:0] x, wire y); endmodule             // inout wire logic [5:0] x
                                                                    // inout wire logic y

                module mh17(input var integer x, wire y); endmodule // input var integer x
                                                                    // input wire logic y

                module mh18(output var x, input y); endmodule       // output var logic x
                                                                    // input wire logic y

                module mh19(output signed [5:0] x, integer y); endmodule
                                                                    // output wire logic signed [5:0] x
                                                                    // output var integer y

                module mh20(ref [5:0] x, y); endmodule              // ref var logic [5:0] x
                                                                    // ref var logic [5:0] y

                module mh21(ref x [5:0], y); endmodule              // ref var logic x [5:0]
                                                                    // ref var logic y
endmodule
