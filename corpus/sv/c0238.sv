module t0238;
class E #(type T = int) extends C;
                  T x;
                  function new(T x_init);
                    super.new();
                    x = x_init;
                  endfunction
                endclass

                initial begin
                  c = E #(.T(byte))::new(.x_init(5));
                end
endmodule
