module t0397;
initial begin
                  int A3[1:3];
                  A3 = {1, 2, 3}; // unpacked array concatenation: A3[1]=1, A3[2]=2, A3[3]=3
                  A3 = '{1, 2, 3}; // array assignment pattern: A3[1]=1, A3[2]=2, A3[3]=3
                end
endmodule
