module t0614;
sequence event_arg_example2 (reg sig);
                  @(posedge sig) x ##1 y;
                endsequence

                cover property (event_arg_example2(clk));
endmodule
