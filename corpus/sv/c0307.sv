module t0307;
initial begin
                  a = 0; // initialize a
                  for (int index = 0; index < size; index++)
                    memory[index] = 0; // initialize memory word
                end
endmodule
