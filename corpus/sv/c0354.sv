module t0354;
initial begin : block_name
                  rega = regb;
                  disable block_name;
                  regc = rega; // this assignment will never execute
                end
endmodule
