module t0986;
parameter
                  word_size = 32,
                  memory_size = word_size * 4096;
endmodule
