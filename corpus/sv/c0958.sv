module t0958;
module alu_accum3 (
                  output [15:0] dataout,
                  input [7:0] ain, bin,
                  input [2:0] opcode,
                  input clk, rst_n);
                  wire [7:0] alu_out;

                  alu alu (.alu_out, .zero(), .ain, .bin, .opcode);
                  accum accum (.dataout(dataout[7:0]), .datain(alu_out), .clk, .rst_n());
                  xtend xtend (.dout(dataout[15:8]), .din(alu_out[7]), .clk, .rst);
                    // Error: rst does not exist in the instantiation module
                endmodule
endmodule
