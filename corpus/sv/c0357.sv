module t0357;
task proc_a;
                  begin
                    if (a == 0)
                      disable proc_a; // return if true
                  end
                endtask
endmodule
