module t0635;
sequence t2;
                  (a ##[2:3] b) or (c ##[1:2] d);
                endsequence
                sequence ts2;
                  first_match(t2);
                endsequence
endmodule
