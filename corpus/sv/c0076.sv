module t0076;
interconnect w1;             // legal
                interconnect [3:0] w2;       // legal
                interconnect [3:0] w3 [1:0]; // legal
endmodule
