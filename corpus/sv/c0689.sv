module t0689;
property fibonacci1 (local input int a, b, n, int fib_sig);
                  (n > 0)
                  |->
                  (
                    (fib_sig == a)
                    and
                    (1'b1 |=> fibonacci1(b, a + b, n - 1, fib_sig))
                  );
                endproperty
endmodule
