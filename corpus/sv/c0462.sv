module t0462;
module m;
                  bit clk, a, b;
                  logic p, q, r;
                  // let eq(x, y = b) = x == y;
                  // let tmp = a && b;

                  a1: assert property (@(posedge clk) (m.p == m.q));
                  always_comb begin
                    a2: assert ((m.r == m.b)); // use default for y
                    a3: assert ((m.a && m.b));
                  end
                endmodule : m
endmodule
