module t1067;
parameter min_hi = 97, typ_hi = 100, max_hi = 107;
                logic clk;
                always begin
                  #(95:100:105) clk = 1;
                  #(min_hi:typ_hi:max_hi) clk = 0;
                end
endmodule
