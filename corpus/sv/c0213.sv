module t0213;
string words [int] = '{default: "hello"};

                // an associative array of 4-state integers indexed by strings, default is –1
                integer tab [string] = '{"Peter":20, "Paul":22, "Mary":23, default:-1 };
endmodule
