module t0200;
int array_name [ string ];
endmodule
