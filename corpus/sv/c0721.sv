module t0721;
property r1;
                  q != d;
                endproperty
                always @(posedge mclk) begin
                  q <= d1;
                  r1_p1: assert property (r1);
                  r1_p2: assert property (@(posedge scanclk)r1);
                end
endmodule
