module t0632;
a3: assert property (@($global_clock) disable iff (rst) $changing_gclk(sig)
                                                     |-> $falling_gclk(clk))
                else $error("sig is not stable");
endmodule
