module t0620;
logic a, b, clk;
                // ...
                a1_bad: assert property (@clk a == b)
                  else $error("Different values: a = %b, b = %b", a, b);
                a2_ok: assert property (@clk a == b)
                  else $error("Different values: a = %b, b = %b",
                    $sampled(a), $sampled(b));
endmodule
