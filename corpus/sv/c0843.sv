module t0843;
class C1;
                  bit [7:0] x;

                  covergroup cv (int arg) @(posedge clk);
                    option.at_least = arg;
                    coverpoint x;
                  endgroup

                  function new(int p1);
                    cv = new(p1);
                  endfunction
                endclass

                initial begin
                  C1 obj = new(4);
                end
endmodule
