module t0088;
typedef logic [15:0] r_t;
                r_t r;
                integer i = 1;
                string b = "";
                string a = {"Hi", b};

                r = r_t'(a);    // OK
                b = string'(r); // OK
                b = "Hi";       // OK
                b = {5{"Hi"}};  // OK
                a = {i{"Hi"}};  // OK (non-constant replication)
                r = {i{"Hi"}};  // invalid (non-constant replication)
                a = {i{b}};     // OK
                a = {a,b};      // OK
                a = {"Hi",b};   // OK
                r = {"H",""};   // yields "H\0". "" is converted to 8'b0
                b = {"H",""};   // yields "H". "" is the empty string
                a[0] = "h";     // OK, same as a[0] = "cough"
                a[0] = b;       // invalid, requires a cast
                a[1] = "\0";    // ignored, a is unchanged
endmodule
