module t0959;
module alu_accum4 (
                  output [15:0] dataout,
                  input [7:0] ain, bin,
                  input [2:0] opcode,
                  input clk);
                  wire [7:0] alu_out;

                  alu alu (.*, .zero());
                  accum accum (.*, .dataout(dataout[7:0]), .datain(alu_out));
                  xtend xtend (.*, .dout(dataout[15:8]), .din(alu_out[7]));
                endmodule
endmodule
