module t0968;
extern module m (a,b,c,d);
                extern module a #(parameter size = 8, parameter type TP = logic [7:0])
                                (input [size:0] a, output TP b);

                module m (.*);
                  input a,b,c;
                  output d;
                endmodule

                module a (.*);
                endmodule
endmodule
