module t0821;
class C1;
                  rand integer x;
                endclass

                class C2;
                  rand integer y;
                endclass

                initial begin
                  C1 c1 = new();
                  C2 c2 = new();
                  integer z;
                  void'(c1.randomize());
                  // z = $random;
                  void'(c2.randomize());
                end
endmodule
