module t0858;
logic [0:7] a, b;
                parameter [0:7] mask;

                covergroup cg;
                  coverpoint a
                  {
                    bins low[] = {[0:127]};
                    bins high = {[128:255]};
                  }
                  coverpoint b
                  {
                    bins two[] = b with (item % 2 == 0);
                    bins three[] = b with (item % 3 == 0);
                  }
                  X: cross a,b
                  {
                    bins apple = X with (a+b < 257) matches 127;
                    bins cherry = ( binsof(b) intersect {[0:50]}
                                 && binsof(a.low) intersect {[0:50]} with (a==b) );
                    bins plum = binsof(b.two) with (b > 12)
                             || binsof(a.low) with (a & b & mask);
                  }
                endgroup
endmodule
