`ifndef X
// pragma translate_off
module A;
endmodule
// pragma translate_on
`endif
