/* IEEE1800-2017 Clause 22.5.1 page 680
*/

`define append(f) f``_master

module `append(clock);
endmodule
