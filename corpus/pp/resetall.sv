// IEEE1800-2017 Clause 22.3
// When `resetall compiler directive is encountered during compilation, all
// compiler directives are set to the default values. This is useful for
// ensuring that only directives that are desired in compiling a particular
// source file are active.
// The recommended usage is to place `resetall at the beginning of each source
// text file, followed immediately by the directives desired in the file.
// It shall be illegal for the `resetall directive to be specified within
// a design element.
// Not all compiler directives have a default value (e.g., `define and
// `include). Directives that do not have a default are not affected by
// `resetall.
`resetall // Comment
`resetall// Comment
`resetall
// This file should be emitted from the preprocessor unchanged.
