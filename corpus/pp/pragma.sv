// IEEE1800-2017 Clause 22.11
// The `pragma directive is a structured specification that alters
// interpretation of the SystemVerilog source. The specification introduced by
// this directive is referred to as a pragma. The effect of pragmas other than
// those specified in this standard is implementation-specific.
`pragma foo
`pragma foo bar
`pragma foo bar,baz
`pragma foo bar, baz
// The reset and resetall pragmas shall restore the default values and state of
// pragma_keywords associated with the affected pragmas. These default values
// shall be the values that the tool defines before any SystemVerilog text has
// been processed. The reset pragma shall reset the state for all pragma_names
// that appear as pragma_keywords in the directive. The resetall pragma shall
// reset the state of all pragma_names recognized by the implementation.
`pragma reset bar
`pragma reset bar,baz
`pragma reset bar, baz

// Protected envelopes specify a region of text that shall be transformed prior
// to analysis by the source language processor. These regions of text are
// structured to provide the source language processor with the specification
// of the cryptographic algorithm, key, envelope attributes, and textual design
// data.
// The following example shows the use of the protect pragma to specify
// encryption of design data. The encryption method is a simple substitution
// cipher where each alphabetic character is replaced with the 13th character
// in alphabetic sequence, commonly referred to as "rot13." Nonalphabetic
// characters are not substituted. The following design data contain an
// encryption envelope that specifies the desired protection.
module secret (a, b);
  input a;
  output b;
`pragma protect encoding=(enctype="raw")
`pragma protect data_method="x-caesar", data_keyname="rot13", begin
`pragma protect runtime_license=(library="lic.so",feature="runSecret",entry="chk", match=42)
  logic b;
  initial begin
    b = 0;
  end
  always begin
    #5 b = a;
  end
`pragma protect end
endmodule
// This file should be emitted from the preprocessor unchanged.
