`define a `a
// direct recursion
`a
