// IEEE1800-2017 Clause 22.8
// The directive `default_nettype controls the net type created for implicit
// net declarations. It can be used only outside design elements. Multiple
// `default_nettype directives are allowed. The latest occurrence of this
// directive in the source controls the type of nets that will be implicitly
// declared.
// When no `default_nettype directive is present or if the `resetall directive
// is specified, implicit nets are of type wire. When the `default_nettype is
// set to none, all nets shall be explicitly declared. If a net is not
// explicitly declared, an error is generated.
`default_nettype wire // Comment immmediately after keyword+space
`default_nettype tri
`default_nettype tri0
`default_nettype tri1
`default_nettype wand
`default_nettype triand
`default_nettype wor
`default_nettype trior
`default_nettype trireg
`default_nettype uwire
`default_nettype none// Comment immmediately after keyword
// This file should be emitted from the preprocessor unchanged.
