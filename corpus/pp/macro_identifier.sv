`define A "aaa"
`define \B "bbb"
module M;
  initial begin
    $display(`A);
    $display(`\A );
    $display(`B);
    $display(`\B );
  end
endmodule
