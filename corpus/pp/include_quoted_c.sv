// Based on last example of IEEE1800-2017 Clause 22.5.1, page 680.
`define APPEND_SVH(path) `"path.svh`"
module and_op (a, b, c);
`include `APPEND_SVH(included)
endmodule
