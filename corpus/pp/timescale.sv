// IEEE1800-2017 Clause 22.7
// This directive specifies the time unit and time precision of the design
// elements that follow it. The time unit is the unit of measurement for time
// values such as the simulation time and delay values.
// The `timescale compiler directive specifies the default unit of measurement
// for time and delay values and the degree of accuracy for delays in all
// design elements that follow this directive, and that do not have timeunit
// and timeprecision constructs specified within the design element, until
// another `timescale compiler directive is read.
// The integers in these arguments specify an order of magnitude for the size
// of the value; the valid integers are 1, 10, and 100.
// The character strings represent units of measurement; the valid character
// strings are s, ms, us, ns, ps, and fs.
`timescale 1 s / 10 ms
`timescale 10 us / 100 ns
`timescale 100 ps / 100 fs
// This file should be emitted from the preprocessor unchanged.
