
`begin_keywords "1800-2005"
module m2 ();
  // "logic" IS a reserved keyword in IEEE1800-2005.
  // This module should pass both the preprocessor, but NOT the main parser.
  reg [63:0] logic;
endmodule
`end_keywords
