/* IEEE1800-2017 Clause 22.5.1 page 678
* NOTE: Illegal cases are not included in this testcase.
* NOTE: Use of EMPTY is suggested on page 679
*/

`define MACRO1(a=5,b="B",c) $display(a,,b,,c);
`define MACRO2(a=5, b, c="C") $display(a,,b,,c);
`define MACRO3(a=5, b=0, c="C") $display(a,,b,,c);

`define EMPTY

module m;
initial begin
  `MACRO1 ( , 2, 3 )
  `MACRO1 ( 1 , , 3 )
  `MACRO1 ( , 2, )
  `MACRO2 (1, , 3)
  `MACRO2 (, 2, )
  `MACRO2 (, 2)
  `MACRO3 ( 1 )
  `MACRO3 ( )

  `MACRO3 (`EMPTY,`EMPTY,`EMPTY)
end
endmodule
