
`define A(a)
`A // Macro called without required argument.

