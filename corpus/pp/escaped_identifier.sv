module a;
reg \`~!-_=+\|[]{};:'"",./<>? ;
endmodule
