// foo
`include "include_recursive.svh"
// bar
