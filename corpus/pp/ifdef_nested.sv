module A;
`ifdef OPT_1
  //wire a = 1'b1;
`else
  wire a = 1'b0;
`endif
`ifdef DEBUG
  `ifdef OPT_2
  //wire b = 1'b1;
  `else
  wire b = 1'b0;
  `endif
`endif
endmodule
