`define b `c
`define c `d
`define d `e
`define e `b
// indirect recursion
`b
