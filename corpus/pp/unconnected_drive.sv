// IEEE1800-2017 Clause 22.9
// The directive `unconnected_drive takes one of two arguments - pull1 or
// pull 0. When pull1 is specified, unconnected ports are pulled down. It is
// advisable to pair each `unconnected_drive with a
// `nounconnected_drive, but it is not required. The latest occurrence of
// either directive in the source controls what happens to unconnected ports.
// These directives shall be specified outside the design element declarations.
// The `resetall directive includes the effects of a `nounconnected
// directive.
`unconnected_drive pull0
`unconnected_drive pull1
`nounconnected_drive
// This file should be emitted from the preprocessor unchanged.
