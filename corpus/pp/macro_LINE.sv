// __LINE__ = `__LINE__

`ifdef __LINE__
// This block SHOULD be emitted from the preprocessor.
`elsif UNDEFINED
// NOT emitted.
`endif

`ifndef __LINE__
// This block should NOT be emitted from the preprocessor.
// However, following (conditional) definition should make it through the
// preprocessor parsing stage without error.
`define __LINE__ -1
`elsif UNDEFINED
// Emitted instead.
`endif

// The following define should have no effect.
`define __LINE__ -2

// The following undef should have no effect.
`undef __LINE__

module M;
  initial
    if (`__LINE__ == 28)      // Should be "26 == 28".
       $display("PASS");
    else if (`__LINE__ == 28) // Should be "28 == 28".
       $display("FAIL");
endmodule
