// Macro with parameters with usage spread over multiple lines.
// Final line of macro is line14.
// Argument value `clk` is equal to its name.
// Argument value of exp contains matching brackets and parentheses.
// Bracketed value of msg is required to avoid being parsed as a parameterized
// macro instead of argumnts to $display.
// NOTE: Trailing whitespace is not exercised here, i.e. continuations
// immediately follow non-whitespace.
`define disp(clk, exp, msg)\
  always @(posedge clk)\
    if (exp) begin\
      $display msg;\
    end\

module M ();

`disp(
  clk,
  !(a[i].b && c[i]),
  ("xxx(()[]]{}}}", a[i].b, c[i])
); // NOTE: Semi-colon is unnecessary.

endmodule
