/* IEEE1800-2017 Clause 22.5.1 top of page 678
*/
`define MACRO1(a=5,b="B",c) $display(a,,b,,c);
`MACRO1(1) // Macro called without required argument `c`.

