output a;
input b, c;

`ifdef behavioral
    wire a = b & c;
`else
    and a1 (a,b,c);
`endif
