`define PATH included.svh
`define QUOTE(path) `"path`"
module and_op (a, b, c);
`include `QUOTE(`PATH)
endmodule
