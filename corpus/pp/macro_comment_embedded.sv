
// Unusual case where a preprocessor comment (same symbol as a single-line
// comment, "//") is embedded in an emitted C-style comment.
// This should not preprocess, but not parse, i.e. in the emitted text, there
// will be an opening // C-style comment symbol "/*" but no closing symbol "*/".
`define A \
  A1 \
  A2 /* emitted */ \
  A3 /* // not emitted, unclosed C comment */ \
  A4

// Same as A, but without space before "//".
// This may catch bad parsers where the first "/" in "//" is treated as part of
// the closing "*/".
`define B \
  B1 \
  B2 /* emitted */ \
  B3 /*// not emitted, unclosed C comment */ \
  B4

// Another variation on B.
`define C \
  C1 \
  C2 /* emitted */ \
  C3 //* not emitted, C comment is closed */ \
  C4

// Another variation on B.
`define D \
  D1 \
  D2 /* emitted */ \
  D3 /* emitted, unclosed C comment *// \
  D4

`A

`B

`C

`D

