// IEEE1800-2017 Clause 22.14
// A pair of directives, `begin_keywords and `end_keywords, can be used to
// specify what identifiers are reserved as keywords within a block of source
// code, based on a specific version of IEEE Std 1364 or IEEE Std 1800.
// The `begin_keywords and `end_keywords directives only specify the set of
// identifiers that are reserved as keywords. The directives do not affect the
// semantics, tokens, and other aspects of the SystemVerilog language.
// The `begin_keywords and `end_keywords directives can only be specified
// outside a design element. The `begin_keywords directive affects all source
// code that follows the directive, even across source code file boundaries,
// until the matching `end_keywords directive or the end of the compilation
// unit. The results of these directives are not affected by the `resetall
// directive.
`begin_keywords "1800-2017"
`end_keywords
`begin_keywords "1800-2012"
`end_keywords
`begin_keywords "1800-2009"
`end_keywords
`begin_keywords "1800-2005"
`end_keywords
`begin_keywords "1364-2005"
`end_keywords
`begin_keywords "1364-2001"
`end_keywords
`begin_keywords "1364-2001-noconfig"
`end_keywords
`begin_keywords "1364-1995"
`end_keywords
// The `begin_keywords `end_keywords directive pair can be nested. Each nested
// pair is stacked so that when an `end_keywords directive is encountered, the
// implementation returns to using the version_ specifier that was in effect
// prior to the matching `begin_keywords directive.
`begin_keywords "1800-2017"
`begin_keywords "1800-2012"
`begin_keywords "1800-2009"
`begin_keywords "1800-2005"
`begin_keywords "1364-2005"
`begin_keywords "1364-2001"
`begin_keywords "1364-2001-noconfig"
`begin_keywords "1364-1995"
`end_keywords
`end_keywords
`end_keywords
`end_keywords
`end_keywords
`end_keywords
`end_keywords
`end_keywords
// This file should be emitted from the preprocessor unchanged.
