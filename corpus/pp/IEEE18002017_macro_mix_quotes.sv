/* IEEE1800-2017 Clause 22.5.1 page 680
*/

`define msg(x,y) `"x: `\`"y`\`"`"

module a;
initial begin
$display(`msg(left side,right side));
end
endmodule
