// IEEE1800-2017 Clause 22.12
// The `line compiler directive can be used to specify the original source code
// line number and file name.
// This allows the location in the original file to be maintained if another
// process modifies the source. After the new line number and file name are
// specified, the compiler can correctly refer to the original source location.
// However, a tool is not required to produce `line directives. These
// directives are not intended to be inserted manually into the code, although
// they can be.
// The compiler shall maintain the current line number and file name of the
// file being compiled. The `line directive shall set the line number and file
// name of the following line to those specified in the directive.
// The directive can be specified anywhere within the SystemVerilog source
// description. However, only white space may appear on the same line as the
// `line directive. Comments are not allowed on the same line as a `line
// directive. All parameters in the `line directive are required. The results
// of this directive are not affected by the `resetall directive.
//
// The number parameter shall be a positive integer that specifies the new line
// number of the following text line. The filename parameter shall be a string
// literal that is treated as the new name of the file. The filename can also
// be a full or relative path name. The level parameter shall be 0, 1, or 2.
// The value 1 indicates that the following line is the first line after an
// include file has been entered. The value 2 indicates that the following
// line is the first line after an include file has been exited. The value
// 0 indicates any other line.

`line 3 "orig.v" 2
// This line is line 3 of orig.v after exiting include file

`line 999 "foo.sv" 2
`line 888 "foo.sv" 1
`line 777 "foo.sv" 0
// This file should be emitted from the preprocessor unchanged.
