`define PATH included.svh
`define QUOTED_PATH `"`PATH`"
module and_op (a, b, c);
`include `QUOTED_PATH
endmodule
