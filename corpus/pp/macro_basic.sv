`define A aaa
module M;
`A#() a0 (.*); // No trailing whitespace.
`A #() a1 (.*); // Trailing 1 space.
`A  #() a2 (.*); // Trailing 2 spaces.
endmodule
