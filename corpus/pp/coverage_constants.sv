// IEEE1800-2017 Clause 40.3.1
// The following predefined `define macros represent basic real-time coverage
// capabilities accessible directly from SystemVerilog:

// Coverage control
localparam int SV_COV_START = `SV_COV_START; // 0
localparam int SV_COV_STOP  = `SV_COV_STOP; // 1
localparam int SV_COV_RESET = `SV_COV_RESET; // 2
localparam int SV_COV_CHECK = `SV_COV_CHECK; // 3

// Scope definition (hierarchy traversal/accumulation type)
localparam int SV_COV_MODULE = `SV_COV_MODULE; // 10
localparam int SV_COV_HIER   = `SV_COV_HIER; // 11

// Coverage type identification
localparam int SV_COV_ASSERTION = `SV_COV_ASSERTION; // 20
localparam int SV_COV_FSM_STATE = `SV_COV_FSM_STATE; // 21
localparam int SV_COV_STATEMENT = `SV_COV_STATEMENT; // 22
localparam int SV_COV_TOGGLE    = `SV_COV_TOGGLE; // 23

// Status results
localparam int SV_COV_OVERFLOW = `SV_COV_OVERFLOW; // -2
localparam int SV_COV_ERROR    = `SV_COV_ERROR; // -1
localparam int SV_COV_NOCOV    = `SV_COV_NOCOV; // 0
localparam int SV_COV_OK       = `SV_COV_OK; // 1
localparam int SV_COV_PARTIAL  = `SV_COV_PARTIAL; // 2
