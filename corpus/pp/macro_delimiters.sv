// Multi-line macro defined with 2 trailing spaces before initial continuation.
// First line has no trailing space, second has trailing space, third is end.
// Macro contains 2-space indent, so indented usage gets extra.
// Delimiters (``) used before and after arguments.
`define connect(NAME, INDEX = 0)  \
  assign NAME``_``INDEX``__x = NAME[INDEX].x;\
  assign NAME``_``INDEX``__y = NAME[INDEX].y; \
  assign NAME``_``INDEX``__z = NAME[INDEX].z;

module M ();
  `connect(a)
  `connect(a, 1)
endmodule
