// IEEE1800-2017 Clause 22.5.2
// The directive `undef shall undefine the specified text macro if previously
// defined by a `define compiler directive within the compilation unit. An
// attempt to undefine a text macro that was not previously defined using a
// `define compiler directive can issue a warning.
`undef FOO
`undef FOO// Comment
`undef FOO // Comment

`define FOO foo
`ifdef FOO
// AAA
// This block SHOULD be emitted from the preprocessor.
`endif
`ifndef FOO
// AAA
// This block should NOT be emitted from the preprocessor.
`endif

`undef FOO
`ifdef FOO
// BBB
// This block should NOT be emitted from the preprocessor.
`endif
`ifndef FOO
// BBB
// This block SHOULD be emitted from the preprocessor.
`endif
