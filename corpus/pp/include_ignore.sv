module and_op (a, b, c);
`include "included.svh"
endmodule
