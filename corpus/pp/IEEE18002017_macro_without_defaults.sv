/* IEEE1800-2017 Clause 22.5.1 page 677
* NOTE: Illegal cases are not included in this testcase.
*/

`define D(x,y) initial $display("start", x , y, "end");

module m;
  `D( "msg1" , "msg2" )
  `D( " msg1", )
  `D(, "msg2 ")
  `D(,)
  `D( , )
endmodule
