`define PATH "included.svh"
module and_op (a, b, c);
`include `PATH
endmodule
