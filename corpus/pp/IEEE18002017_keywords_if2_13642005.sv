
`begin_keywords "1364-2005" // use IEEE Std 1364-2005 Verilog keywords
interface if2 (); // ERROR: "interface" is not a keyword in 1364-2005
  // This interface should pass the preprocessor, but not the main parser
  // because the identifiers `interface` and `endinterface` are not reserved
  // keywords in IEEE1364-2005.
endinterface // ERROR: "endinterface" is not a keyword in 1364-2005
`end_keywords
