// IEEE1800-2017 Clause 22.10
// The directives `celldefine and `endcelldefine tag modules as cell modules.
// Cells are used by certain PLI routines and may be useful for applications
// such as delay calculations. It is advisable to pair each `celldefine with an
// `endcelldefine, but it is not required. The latest occurrence of either
// directive in the source controls whether modules are tagged as cell modules.
// More than one of these pairs may appear in a single source description.
// These directives may appear anywhere in the source description, but it is
// recommended that the directives be specified outside any design elements.
//  The `resetall directive includes the effects of a `endcelldefine directive.
`celldefine
`endcelldefine
// This file should be emitted from the preprocessor unchanged.
