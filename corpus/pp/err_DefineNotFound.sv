
`A // Macro called without definition.

