module and_op (a, b, c);
`include "included.svh"   `include "included.svh"
endmodule
