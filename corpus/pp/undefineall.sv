// IEEE1800-2017 Clause 22.5.3
// The directive `undefineall directive shall undefine all text macros
// previously defined by `define compiler directives within the compilation
// unit. This directive takes no argument and may appear anywhere in the source
// description.
`undefineall
`undefineall// Comment
`undefineall // Comment

`define FOO foo
`define BAR bar
`ifdef FOO
// AAA
// This block SHOULD be emitted from the preprocessor.
`endif
`ifndef FOO
// AAA
// This block should NOT be emitted from the preprocessor.
`endif
`ifdef BAR
// BBB
// This block SHOULD be emitted from the preprocessor.
`endif
`ifndef BAR
// BBB
// This block should NOT be emitted from the preprocessor.
`endif

`undefineall
`ifdef FOO
// CCC
// This block should NOT be emitted from the preprocessor.
`endif
`ifndef FOO
// CCC
// This block SHOULD be emitted from the preprocessor.
`endif
`ifdef BAR
// DDD
// This block should NOT be emitted from the preprocessor.
`endif
`ifndef BAR
// DDD
// This block SHOULD be emitted from the preprocessor.
`endif
