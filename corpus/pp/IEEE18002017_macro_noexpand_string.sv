/* IEEE1800-2017 Clause 22.5.1 page 679
*/

module main;
`define HI Hello
`define LO "`HI, world"
`define H(x) "Hello, x"
initial begin
  $display("`HI, world");
  $display(`LO);
  $display(`H(world));
end
endmodule
