// __FILE__ = `__FILE__

`ifdef __FILE__
// This block SHOULD be emitted from the preprocessor.
`elsif UNDEFINED
// NOT emitted.
`endif

`ifndef __FILE__
// This block should NOT be emitted from the preprocessor.
// However, following (conditional) definition should make it through the
// preprocessor parsing stage without error.
`define __FILE__ "(null)"
`elsif UNDEFINED
// Emitted instead.
`endif

// The following define should have no effect.
`define __FILE__ "FOO"

// The following undef should have no effect.
`undef __FILE__

// NOTE: Comparison against expected value are destined to fail in testcase.
