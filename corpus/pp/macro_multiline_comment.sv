//                                  Leading whitespace on 4 lines.
//  initial \                       Space before line continuation.
//    begin\                        No space before line continuation.
//      $display(); // comment \    Continuation at end of comment.
//    end
// NOTE: Trailing whitespace on lines ending `initial ` and `$display(); `.

`define A \
  initial \
    begin\
      $display(); // comment \
    end

module M;
`A
endmodule
