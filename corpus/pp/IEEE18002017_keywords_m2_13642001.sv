
`begin_keywords "1364-2001"
module m2 ();
  // "logic" is NOT a reserved keyword in IEEE1364-2001.
  // This module should pass both the preprocessor, AND the main parser.
  reg [63:0] logic;
endmodule
`end_keywords
