/* IEEE1800-2017 Clause 22.5.1 page 679
*/

`define max(a,b)((a) > (b) ? (a) : (b))
`define TOP(a,b) a + b

module m;
assign n = `max(p+q, r+s) ;
assign z = `TOP( `TOP(b,1), `TOP(42,a) );
endmodule
