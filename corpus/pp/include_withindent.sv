module and_op (a, b, c);
  // a
  `include "included.svh"
endmodule
