/* IEEE1800-2017 Clause 22.5.1, page 676
If a one-line comment (that is, a comment specified with the characters //) is
included in the text, then the comment shall not become part of the substituted
text.
*/

// A has no comment
// B has a comment after 1 space
// C has a comment after 3 spaces
`define A 11
`define B 22 // Comment not included in macro, but whitespace before `//` is.
`define C 33   // Comment not included in macro, but whitespace before `//` is.

interface A #(p=`A) (); endinterface
interface B #(p=`B) (); endinterface
interface C #(p=`C) (); endinterface
