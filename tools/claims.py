# Table of claimed properties (read by gen_manifest.py).
NOT_APPLICABLE = {}

claim('C01', 'property-based testing: generated/corpus/mutated programs and library maps, tiling oracle over every leaf and node',
      'Exploration: every leaf and (for trees <= 3000 nodes, every) node of ~10^4 (quick) / ~10^5 (thorough) accepted inputs is compared with the preprocessed text; inputs come from a static corpus that reaches most productions the project tests, an Annex A grammar generator, trivia re-layout, token mutants and a library-map generator, in strict and incomplete mode. It can show a violation with a minimal replay; it cannot show absence.',
      'Trusts the harness tiling checker (harness/src/sv.rs) and that preprocess_str + parse_*_pp equals the one-step entry points (property C20).',
      'DESIGN.md 6 C01, 4.1')
claim('C02', 'property-based testing: typed Annex A sentence generator with expectations, strict acceptance + position-based classification oracle',
      'Exploration: ~26 000 (quick) / 360 000 (thorough) generated programs with adversarial identifiers and random layout must be accepted, and every declared name must sit under the expected identifier kind inside the expected Annex A construct kind; every keyword/identifier token and every multi-character operator must be exactly one leaf; every enum node that consists of one keyword only must be the variant named after that keyword (also over every accepted corpus file). A rejection or a different tree at the production memo capacity is re-judged against listed finding K3. Shrinks to a minimal program.',
      'Trusts that the generator derives only Annex A sentences (validated family by family against the unchanged tree; forms ambiguous in Annex A carry sets of admissible kinds).',
      'DESIGN.md 6 C02, 3.1')
claim('C03', 'property-based testing: generated include/macro/conditional file trees with globally unique tokens; per-output-position origin oracle from source search + reference-model labels',
      'Exploration: ~30 000 (quick) / 400 000 (thorough) generated file trees; every output byte is checked: unique tokens against the exact (file, offset) found by searching the sources, macro text against the defining file and body start, synthesised text against none, white space against exact or byte-equal file positions; plus get_origin == origin on every leaf of parsed multi-file programs.',
      'Trusts the reference preprocessor model only for labelling which output token came from which file / macro; exact offsets come from searching unique tokens in the source files, not from the model.',
      'DESIGN.md 6 C03, 4.3')
claim('C04', 'property-based testing: generated conditional-compilation programs vs. reference preprocessor (differential, token-for-token + define table)',
      'Exploration: ~70 000 (quick) / 900 000 (thorough) generated programs with nested chains, all define/undef patterns, dead branches full of would-be errors and random caller tables; the output tokens, the final define table and the absence of errors from dead branches are compared with an AST-level reference model of IEEE 22.6. A third of the cases put plain tokens directly in front of conditionals. Known findings K2 (model deviation flag) and K7 (token straddling a removed directive in the model text) are classified exactly.',
      'Trusts the reference model (harness/src/ppm/model.rs) and the harness lexer; white-space differences are not judged.',
      'DESIGN.md 6 C04, 4.4')
claim('C05', 'property-based testing: generated define/usage programs incl. single injected misuse vs. reference preprocessor (token-for-token output, error payload, define table)',
      'Exploration: ~160 000 (quick) / 1.9 M (thorough) generated programs covering formals/defaults/empty and omitted actuals/nested brackets/strings/pasting/stringification/continuations/nested usages/redefinition; expected DefineNotFound / DefineArgNotFound / DefineNoArgs payloads are checked by injecting exactly one fault. Formals may be spelled like directives or hold a dollar sign; macros may be defined by the expansion of another macro. A templated campaign puts block and one-line comments into actuals of a macro whose body goes on behind the formals and compares the code tokens with an explicit expected sequence. Known findings K8-K12 (macro-text scanner / argument grammar corners) are excluded by construction and replayed as witnesses.',
      'Trusts the reference model and lexer; constructs whose meaning the standard leaves open (more actuals than formals, usages inside `"…`") are not generated.',
      'DESIGN.md 6 C05, 4.4')
claim('C09', 'fault/shape enumeration + random mixtures in isolated child processes: every cycle length and chain depth, oracle on the error structure / expanded tokens',
      'Exploration (enumerated): all macro-cycle lengths 1-8, include-cycle lengths 1-5, macro->include and `include `MACRO cycles, every macro-chain and include-chain depth 1-80, cross products of macro depth x include depth around the limit, interleaved chains, macro chains ending in an include of the file itself, plus random mixtures; each case runs in its own process so a stack overflow, fd exhaustion or hang is observed rather than fatal.',
      'A child killed by a signal is a violation; a hang is declared only after a 20 s and a solitary 150 s run both fail to finish (normal cost: milliseconds). Known finding K17 (argument-doubling self-recursion) is replayed in a child with a 4 GiB address-space limit.',
      'DESIGN.md 6 C09')
claim('C10', 'property-based testing: generated include graphs vs. reference model; ignore_include with the include files deleted; same-line templates; search-order rule in child processes with their own cwd',
      'Exploration: ~12 000 generated include graphs (decoy copies in later include directories make a wrong search order visible; defines cross the boundary both ways) compared token-for-token and by define table / Include{File} error with the model; ~4 000 trees under ignore_include with the files removed from disk (a third of the includes stand inside a macro body); ~3 000 same-line templates (IncludeLine iff something other than blanks/comments shares the line); ~400 (quick) child processes checking cwd-first / first-include-path / absolute / nowhere.',
      'Trusts the reference model and the stated search rule as implemented independently in the harness.',
      'DESIGN.md 6 C10')
claim('C11', 'property-based testing: returned define table vs. reference model; metamorphic relation threaded runs == concatenation',
      'Exploration: ~40 000 generated programs whose returned table (names, formals, defaults, body text) must equal the model\'s, and ~30 000 programs cut into 2-4 parts where threading the returned table through successive runs must give byte-identical text and the same final table (positions aside) as one run over the concatenation.',
      'SV_COV_* constants are left aside as the property states; parts end with a newline outside conditionals.',
      'DESIGN.md 6 C11')
claim('C06', 'property-based testing: generated directive-free texts over the full lexical alphabet (identity + per-byte origin), arbitrary character soups (rejection only for stated lexical faults), re-preprocessing of generated programs\' outputs (fixed point)',
      'Exploration: ~60 000 well-formed directive-free texts must come back byte-identical with origin(i) == (path, i) at every i; ~60 000 arbitrary backtick-free soups may be rejected only when an independent lexer finds an unterminated string / block comment or lone backslash (and then as Error::Preprocess); ~15 000 successful outputs of generated preprocessor programs are fed back and must be fixed points. Known finding K1 is classified by an exact predictor of the duplicated output.',
      'Trusts the harness lexer as the definition of lexical well-formedness and the RC1 predictor (harness/src/gen/textgen.rs) for classifying K1 only.',
      'DESIGN.md 6 C06')
claim('C18', 'property-based testing: metamorphic relation strip_comments on/off over directive-free texts, comment-as-sole-separator texts and generated preprocessor programs',
      'Exploration: ~105 000 (quick) inputs are preprocessed with and without strip_comments; the non-comment token sequences, returned define tables and errors must be identical and the stripped output must hold no comment outside kept `define lines.',
      'A comment surviving because it is owned by a string / escaped identifier is classified as listed finding K1 (structural check on the position of every surviving comment).',
      'DESIGN.md 6 C18')
claim('C16', 'property-based testing: corpus / generated / mutated trees; traversal invariants checked on every node against an index built from the event nesting',
      'Exploration: ~6 000 (quick) trees (whole corpus + generated programs + library maps + mutants), ~10^6 nodes: root first, balanced events, Enter sequence == iteration, sub-iteration == slice, unwrap_node!/unwrap_locate! == linear search, get_str_trim == span of non-whitespace leaves.',
      'Nodes are identified by (kind, leaf position) signatures and subtree sizes.',
      'DESIGN.md 6 C16')
claim('C20', 'property-based testing: differential comparison of all public entry points over generated file trees and all flag combinations',
      'Exploration: ~6 700 (quick) generated file trees (preprocessor programs, multi-file SystemVerilog programs, library maps) x 4 preprocess flag combinations x 4 parse flag combinations; file, string and two-step entry points must agree on text, every origin, define table, tree (Debug), every leaf origin and error.',
      'Results are compared through Debug renderings.',
      'DESIGN.md 6 C20')
claim('C12', 'property-based testing: metamorphic relation over layouts (same token positions, independently generated trivia runs) on generated programs, their token mutants and corpus files',
      'Exploration: ~11 500 (quick) programs / mutants / corpus files are laid out several times with white space at the same inter-token positions but different runs (blanks, tabs, form feeds, CR/LF/CRLF, comments, argument-closed directives) or get `resetall between descriptions; acceptance must be the same and accepted trees equal once WhiteSpace subtrees are dropped; ~3 000 library maps under two white-space layouts (parse_lib_str); no token of an accepted tree other than a string literal may hold white space. A difference is re-judged against listed finding K3 (one layout parsed differently at the production memo capacity than with the unbounded table).',
      'Trivia generation respects the lexical preconditions listed in DESIGN.md 3.4; `pragma is excluded.',
      'DESIGN.md 6 C12')
claim('C13', 'property-based testing: generated `begin_keywords region programs with later-only words as identifiers (must be accepted) and reserved-word mutants (must be rejected); tree-walk oracle with an independent keyword table',
      'Exploration: ~15 000 (quick) cases: Verilog-95-safe modules in sequential/nested regions of all eight versions whose declared names are partly words reserved only later (accepted + walk oracle), the same with one declared name replaced by a word reserved in force (Error::Parse), and the walk oracle over the corpus and generated Annex A programs; between the directives stand kept directives and compilation-unit items (lone timeunit, later-only words as type names), the word behind a directive may be glued to its closing quote.',
      'Keyword tables are a snapshot in the harness cross-checked against IEEE 1800-2017 22.14.',
      'DESIGN.md 6 C13')
claim('C14', 'fault enumeration by property-based testing: every token boundary / closing delimiter of generated and corpus programs, with and without include indirection; preprocessor-level lexical faults',
      'Exploration: ~23 000 (quick) (program, site) pairs: an inserted byte that starts no token must give Error::Parse naming the right file at an offset not after the byte; a deleted closing bracket / block keyword must give Error::Parse; ~1 500 preprocessor-level faults must give Error::Preprocess with the right path and offset, wrapped in Include when included.',
      'Sites are taken from the accepted tree of programs that preprocessing leaves unchanged.',
      'DESIGN.md 6 C14')
claim('C15', 'property-based testing: corpus, generated programs, mutants, truncations, token soups and library maps through incomplete mode; differential against strict mode and the raw parsers; metamorphic junk-append',
      'Exploration: ~16 000 (quick) inputs: never Error::Parse, prefix tiling, strict acceptance of exactly the covered prefix with an identical tree, equal trees when strict mode accepts, unchanged tree (white space aside) after appending unparsable text. A failed case is re-judged against listed finding K3 per parse it compares.',
      'Appended junk cannot continue the last description.',
      'DESIGN.md 6 C15')
claim('C07', 'stateful property-based testing: generated call histories (entry point x pooled input incl. state-polluting inputs) followed by a probe, differential against a fresh-thread reference',
      'Exploration: ~6 000 self-contained histories (0-12 calls + probe, new thread per case), ~6 000 on a long-lived thread where residue accumulates, and all (first input, probe input) pairs; inputs are copied into one reused buffer so the pointer-keyed memo sees the same address with new contents. The probe must equal the same call on a fresh thread (text, origins, defines, tree, error).',
      'Results are compared through Debug renderings; the input pool is fixed (harness/src/props/calls.rs).',
      'DESIGN.md 6 C07')
claim('C08', 'property-based testing / fuzzing in-process: token soups, mutants, truncations, arbitrary bytes in files, hostile define tables through every public entry point and tree accessor under catch_unwind',
      'Exploration: ~340 000 (quick) / 3.5 M (thorough) adversarial inputs through preprocess*, parse_sv*, parse_lib*, tree iteration, events, Display, Debug, get_str, get_str_trim, get_origin, Locate::try_from, origin(); no panic allowed; ReadUtf8 / File / Include structure checked for unreadable and missing files. Built with debug assertions and overflow checks on.',
      'Stack exhaustion by nesting is outside the claim (inputs nested deeper than 24 are skipped and counted).',
      'DESIGN.md 6 C08')
claim('C19', 'stress exploration (property-based plans of concurrent calls released by a barrier, repeated), differential against sequential fresh-thread references',
      'Exploration: 240 (quick) / 2 400 (thorough) generated plans of 2-16 threads x 3-10 calls, each plan repeated 20-60 times; every concurrent result must equal the result of the same call run alone. The harness does not control the scheduler, so this explores interleavings under load rather than enumerating them.',
      'Detects shared mutable state introduced between threads with high probability, not with certainty.',
      'DESIGN.md 6 C19, 8')
claim('C17', 'property-based testing with the verif_hooks memo wrapper: differential of every bounded capacity (1024 … 1) against the unbounded table on corpus / generated / mutated inputs, deterministic insert budget, exact attribution of listed finding K3',
      'Exploration: ~17 600 (quick) inputs x 3-11 capacities (~120 000 configurations): acceptance and the whole tree must equal the unbounded-table result; evictions are certain (inserts > capacity, from the hook counters) in ~80 % of the cases. A divergence is tolerated only when the unbounded table accepts and the recursion-aware key removes it (listed finding K3) AND the share of such divergences per capacity stays under the ceilings listed with the finding (an aggregate bound checked at the end of the run); everything else is a violation.',
      'Needs the verif_hooks feature (wrapper around the real PackratStorage). Runs that exhaust the insert budget are inconclusive.',
      'DESIGN.md 6 C17, 5')
