# Table of claimed properties (read by gen_manifest.py).
NOT_APPLICABLE = {}

claim('C01', 'property-based testing: generated/corpus/mutated programs and library maps, tiling oracle over every leaf and node',
      'Exploration: every leaf and (for trees <= 3000 nodes, every) node of ~10^4 (quick) / ~10^5 (thorough) accepted inputs is compared with the preprocessed text; inputs come from a static corpus that reaches most productions the project tests, an Annex A grammar generator, trivia re-layout, token mutants and a library-map generator, in strict and incomplete mode. It can show a violation with a minimal replay; it cannot show absence.',
      'Trusts the harness tiling checker (harness/src/sv.rs) and that preprocess_str + parse_*_pp equals the one-step entry points (property C20).',
      'DESIGN.md 6 C01, 4.1')
claim('C02', 'property-based testing: typed Annex A sentence generator with expectations, strict acceptance + position-based classification oracle',
      'Exploration: ~26 000 (quick) / 360 000 (thorough) generated programs with adversarial identifiers and random layout must be accepted, and every declared name must sit under the expected identifier kind inside the expected Annex A construct kind; every keyword/identifier token must be exactly one leaf. Shrinks to a minimal program.',
      'Trusts that the generator derives only Annex A sentences (validated family by family against the unchanged tree; forms ambiguous in Annex A carry sets of admissible kinds).',
      'DESIGN.md 6 C02, 3.1')
