#!/usr/bin/env python3
"""One-time snapshot of the reserved-word tables (IEEE 1800-2017 Tables 22-1 ... 22-8 and the directive names)
into harness/src/keywords_data.rs. Taken from the pinned tree after cross-checking the increments against the
standard (102 / +11 noconfig / +10 / +1 / +97 / +23 / +4 / +0 words). The harness never reads /repo's table at
run time, so a changed table in /repo does not move the oracle."""
import re
s=open('/repo/sv-parser-parser/src/keywords.rs').read()
out=["//! Reserved-word tables (snapshot, see tools/gen_keywords.py). Do not regenerate from a modified tree.\n"]
for m in re.finditer(r'pub\(crate\) const (KEYWORDS_\w+): &\[&str\] = &\[(.*?)\];', s, re.S):
    words=re.findall(r'"([^"]+)"', m.group(2))
    out.append("pub const %s: &[&str] = &[\n" % m.group(1))
    for i in range(0,len(words),8):
        out.append("    "+", ".join('"%s"'%w for w in words[i:i+8])+",\n")
    out.append("];\n\n")
open('/verif/harness/src/keywords_data.rs','w').write("".join(out))
