#!/usr/bin/env python3
"""Regenerate /verif/MANIFEST.json from the table below (keeps it schema-valid at all times)."""
import json, os, subprocess
ROOT = os.path.dirname(os.path.dirname(os.path.abspath(__file__)))
props = [json.loads(l) for l in open(os.path.join(ROOT, 'properties.jsonl'))]
ids = [p['id'] for p in props]

# id -> (technique, level text, level note, design ref)
CLAIMED = {}
def claim(i, technique, text, note, ref):
    CLAIMED[i] = dict(technique=technique, text=text, note=note, ref=ref)

exec(open(os.path.join(ROOT, 'tools', 'claims.py')).read())

hook_commits = []
try:
    out = subprocess.run(['git', '-C', '/repo', 'log', '--format=%H %s'], capture_output=True, text=True).stdout
    for line in out.splitlines():
        h, s = line.split(' ', 1)
        if 'verif_hooks' in s:
            hook_commits.append(h)
except Exception:
    pass

checks = []
for i in ids:
    if i not in CLAIMED:
        continue
    c = CLAIMED[i]
    checks.append({
        'property_id': i,
        'quick_cmd': './check %s quick' % i,
        'thorough_cmd': './check %s thorough' % i,
        'evidence_file': 'evidence/%s.json' % i,
        'replay_cmd_template': './check %s replay {path}' % i,
        'engine': 'svcheck',
        'level_claimed': {'category': 'exploration', 'text': c['text'], 'design_ref': c['ref']},
        'level_note': c['note'],
        'technique': c['technique'],
    })
na = [{'property_id': i, 'reason': NOT_APPLICABLE.get(i, 'check not built yet in this round; no claim is made')} for i in ids if i not in CLAIMED]
m = {
    'version': 1,
    'setup_cmd': './check build',
    'hooks': {
        'guard': 'cargo feature verif_hooks of crate sv-parser-parser',
        'enable': 'the harness crate depends on sv-parser-parser with features = ["verif_hooks"]; cargo rebuilds it from /repo\'s working tree on every ./check call',
        'baseline_off_cmd': 'cd /repo && cargo test --workspace --no-fail-fast --offline',
        'source_commits': hook_commits,
        'add_only': True,
    },
    'engines': [{
        'name': 'svcheck',
        'path': 'harness/',
        'serves_properties': sorted(CLAIMED.keys()),
        'kind_free_text': 'Rust binary: proptest 1.11 runners over choice tapes (sharded over 16 threads, seeded by VERIF_SEED), reference generators/models per property, shrinking to replay files; cargo-fuzz targets under fuzz/ for the thorough tier',
    }],
    'checks': checks,
    'notes': 'All checks are property-based testing / fuzzing: generated-input search against an explicit oracle. exit 2 = infrastructure or inconclusive, never a violation. Known findings: known_findings.json.',
    'not_applicable': na,
}
json.dump(m, open(os.path.join(ROOT, 'MANIFEST.json'), 'w'), indent=1)
print('claimed', len(checks), 'not claimed', len(na))
