#!/bin/sh
# tools/seed_matrix.sh [<seeded-dir-name>...]   (developer tool, not a registered check)
# Runs every seeded change in /verif/seeded against the quick check of its property under several VERIF_SEED values,
# in an isolated copy (git worktree of /repo + copy of /verif under $ISO), so that /repo itself is never touched and
# background runs are not disturbed.  Prints one line per (seed dir, VERIF_SEED): caught / MISSED / infra.
# The scratch copy is removed at the end (keep it with KEEP=1).
ISO=${ISO:-/tmp/iso_matrix}
SEEDS=${SEEDS:-"0 1 2"}
set -u
rm -rf "$ISO/verif"
mkdir -p "$ISO"
if [ ! -d "$ISO/repo" ]; then git -C /repo worktree add --detach "$ISO/repo" HEAD >/dev/null 2>&1 || exit 2; fi
git -C "$ISO/repo" checkout -q --detach "$(git -C /repo rev-parse HEAD)" && git -C "$ISO/repo" checkout -q -- .
mkdir -p "$ISO/verif"
rsync -a --exclude target --exclude out --exclude .git --exclude seeded --exclude fuzz /verif/ "$ISO/verif/"
sed -i "s#/repo/#$ISO/repo/#g" "$ISO/verif/harness/Cargo.toml"
[ -d "$ISO/target" ] && mv "$ISO/target" "$ISO/verif/harness/target"
SD=${SD:-/verif/seeded}
if [ $# -gt 0 ]; then LIST="$*"; else LIST=$(ls $SD); fi
for D in $LIST; do
  P=$SD/$D/patch.diff
  [ -f "$P" ] || continue
  ID=$(echo "$D" | cut -c1-3)
  git -C "$ISO/repo" checkout -q -- .
  if ! git -C "$ISO/repo" apply "$P" 2>/dev/null; then
    ALT=$(ls $SD/$D/patch_rebased*.diff 2>/dev/null | head -1)
    if [ -n "$ALT" ] && git -C "$ISO/repo" apply "$ALT" 2>/dev/null; then :; else echo "$D: patch does not apply"; continue; fi
  fi
  for S in $SEEDS; do
    OUT=$(cd "$ISO/verif" && VERIF_SEED=$S ./check "$ID" quick 2>&1); RC=$?
    case $RC in
      1) echo "$D seed=$S caught: $(echo "$OUT" | grep -m1 '^VIOLATION' | cut -c1-60)" ;;
      0) echo "$D seed=$S MISSED" ;;
      *) echo "$D seed=$S infra rc=$RC: $(echo "$OUT" | tail -2 | tr '\n' ' ' | cut -c1-200)" ;;
    esac
  done
done
git -C "$ISO/repo" checkout -q -- .
if [ "${KEEP:-0}" = "1" ]; then mv "$ISO/verif/harness/target" "$ISO/target"; else git -C /repo worktree remove --force "$ISO/repo"; rm -rf "$ISO"; fi
