#!/usr/bin/env python3
"""Extract the static seed corpus from sv-parser-parser/src/tests.rs (run once; output is committed).

Every raw-string snippet of a test!() call is turned into a stand-alone source file:
  many1(module_item) / module_item / task_declaration / subroutine_call_statement -> wrapped in a module
  source_text / module_declaration / program_declaration / package_declaration     -> as is
  library_text                                                                      -> corpus/lib
The corpus is data (inputs), never an oracle.
"""
import re, sys, os, hashlib
src = open('/repo/sv-parser-parser/src/tests.rs').read()
pat = re.compile(r'test!\(\s*([a-z_0-9()]+)\s*,\s*r##"(.*?)"##\s*,\s*(Ok|Err)', re.S)
out = '/verif/corpus'
n = 0
seen = set()
for m in pat.finditer(src):
    parser, body, verdict = m.group(1), m.group(2), m.group(3)
    if parser in ('many1(module_item)', 'module_item', 'task_declaration'):
        text = 'module t%04d;\n%s\nendmodule\n' % (n, body)
        d = 'sv'
    elif parser == 'subroutine_call_statement':
        text = 'module t%04d;\ninitial begin\n%s\nend\nendmodule\n' % (n, body)
        d = 'sv'
    elif parser in ('source_text', 'module_declaration', 'program_declaration', 'package_declaration'):
        text = body if body.endswith('\n') else body + '\n'
        d = 'sv'
    elif parser == 'library_text':
        text = body if body.endswith('\n') else body + '\n'
        d = 'lib'
    else:
        continue
    h = hashlib.sha1(text.encode()).hexdigest()
    if h in seen:
        continue
    seen.add(h)
    name = '%s/%s/c%04d.%s' % (out, d, n, 'sv' if d == 'sv' else 'map')
    open(name, 'w').write(text)
    n += 1
print(n, 'files')
