#!/bin/sh
# tools/confirm_seed.sh <worktree> <patch> <example-name> : confirm a seeded change (suite passes with it, demo fails with it and passes without)
WT="$1"; P="$2"; EX="$3"
cd "$WT" || exit 2
git checkout -q -- . 
echo "--- demo without the change"; cargo run --offline -q -p sv-parser --example "$EX" >/dev/null 2>&1; echo "exit=$?"
git apply "$P" || exit 2
echo "--- test suite with the change"; cargo test --workspace --offline 2>&1 | grep -E "^test result" 
echo "--- demo with the change"; cargo run --offline -q -p sv-parser --example "$EX" >/dev/null 2>&1; echo "exit=$?"
git checkout -q -- .
