#!/bin/sh
# show the newest replay file of a property (developer helper)
python3 - "$1" <<'EOF'
import json,sys,glob,os
fs=sorted(glob.glob('/verif/out/replays/'+sys.argv[1]+'*'), key=os.path.getmtime)
f=fs[-1]
d=json.load(open(f))
print(f); print(d['message']); print('tape',len(d['tape']))
det=d['detail']
print(det.get('plain') or det.get('source') or json.dumps(det,indent=1)[:3000])
EOF
