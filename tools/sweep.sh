#!/bin/sh
# sweep.sh <seeds...> : all quick checks under several seeds (developer tool)
cd /verif
for s in "$@"; do
  for i in C01 C02 C03 C04 C05 C06 C07 C08 C09 C10 C11 C12 C13 C14 C15 C16 C17 C18 C19 C20; do
    VERIF_SEED=$s ./check $i quick > /tmp/sweep_out.txt 2>&1; rc=$?
    echo "seed=$s $i rc=$rc $(grep -c '^VIOLATION' /tmp/sweep_out.txt) $(grep "^$i quick" /tmp/sweep_out.txt | cut -c1-150)"
    if [ $rc != 0 ]; then grep -v "^proptest" /tmp/sweep_out.txt | tail -5 | cut -c1-300; fi
  done
done
