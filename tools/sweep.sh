#!/bin/sh
# tools/sweep.sh <seed>... : every quick check under several VERIF_SEEDs, from a frozen copy of /verif under $ISO
# (developer tool; the copy keeps editing in /verif from disturbing the run; /repo itself is used, so do not touch it meanwhile)
ISO=${ISO:-/tmp/iso_sweep}
rm -rf "$ISO/verif"; mkdir -p "$ISO/verif"
rsync -a --exclude target --exclude out --exclude .git --exclude seeded --exclude fuzz/target /verif/ "$ISO/verif/"
[ -d "$ISO/target" ] && mv "$ISO/target" "$ISO/verif/harness/target"
cd "$ISO/verif" || exit 2
for s in "$@"; do
  for i in C01 C02 C03 C04 C05 C06 C07 C08 C09 C10 C11 C12 C13 C14 C15 C16 C17 C18 C19 C20; do
    VERIF_SEED=$s ./check $i quick > "$ISO/out.txt" 2>&1; rc=$?
    echo "seed=$s $i rc=$rc violations=$(grep -c '^VIOLATION' "$ISO/out.txt") $(grep "^$i quick" "$ISO/out.txt" | cut -c1-150)"
    if [ $rc != 0 ]; then grep -v "^proptest" "$ISO/out.txt" | tail -5 | cut -c1-300; fi
  done
done
mv "$ISO/verif/harness/target" "$ISO/target"
