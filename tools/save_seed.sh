#!/bin/sh
# tools/save_seed.sh <ID> <name> <demo-example> "<needs>" : copy a sub-agent's deliverables from /tmp/seed_<ID> into seeded/<name>/
id=$1; name=$2; demo=$3; needs=$4
mkdir -p /verif/seeded/$name
cp ${SEEDDIR:-/tmp/seed_$id}/patch.diff /verif/seeded/$name/
cp ${SEEDDIR:-/tmp/seed_$id}/demo.rs /verif/seeded/$name/
cp ${SEEDDIR:-/tmp/seed_$id}/notes.md /verif/seeded/$name/agent_notes.md
python3 - "$id" "$name" "$demo" "$needs" <<'EOF'
import json,sys
id,name,demo,needs=sys.argv[1:5]
json.dump({"breaks_property":id,"source":"independent sub-agent given only the property text and a scratch worktree","needs_to_manifest":needs,
 "confirmed":"tools/confirm_seed.sh in the agent's worktree: existing suite 120/120 with the change; demo example '%s' exits 0 without and non-zero with the change"%demo,
 "demo_placement":"sv-parser/examples/%s.rs; cargo run --offline -p sv-parser --example %s"%(demo,demo),
 "detected_by":[], "ran":[]}, open('/verif/seeded/%s/meta.json'%name,'w'), indent=1)
EOF
