#!/bin/sh
# tools/try_seed.sh <patch.diff> <ID> [<ID>...] : apply a seeded change to /repo, run the quick checks, undo it.
P="$1"; shift
cd /repo || exit 2
git diff --quiet || { echo "/repo working tree not clean"; exit 2; }
git apply "$P" || { echo "patch does not apply"; exit 2; }
for ID in "$@"; do
  echo "=== $ID with $(basename $(dirname $P))"
  (cd /verif && VERIF_SEED=${VERIF_SEED:-0} ./check $ID quick 2>&1 | grep -v "^proptest" | tail -4)
done
git -C /repo checkout -- .
echo "=== reverted"; git -C /repo status --short | head -3
