#!/bin/sh
# fuzz/run.sh <target> <runs-per-worker> <seed> [workers]
# Coverage-guided campaign with the oracle inside the target. Fresh corpus seeded from /verif/corpus.
# exit 0 = no crash, 1 = crash (artifact path printed as "ARTIFACT <path>"), 2 = infrastructure
# Only crash-* artifacts (a panic, i.e. the oracle inside the target or a sanitizer firing) count. slow-unit-* files are
# libFuzzer's report of units slower than -report_slow_units and say nothing about the property; timeout-* / oom-* end
# one worker's job early and make that part of the campaign inconclusive (counted, never a violation).
ROOT=$(cd "$(dirname "$0")/.." && pwd)
T="$1"; RUNS="${2:-20000}"; SEED="${3:-1}"; W="${4:-16}"
[ "$SEED" = "0" ] && SEED=1
export CARGO_NET_OFFLINE=true
export VERIF_ROOT="$ROOT"
cd "$ROOT" || exit 2
cargo +nightly fuzz build --fuzz-dir fuzz "$T" >"$ROOT/fuzz/build.log" 2>&1 || { echo "fuzz build failed"; tail -20 "$ROOT/fuzz/build.log"; exit 2; }
WORK="$ROOT/out/fuzz-$T-$$"
rm -rf "$WORK"; mkdir -p "$WORK/corpus" "$WORK/artifacts"
MAXLEN=600; DICT="-dict=$ROOT/fuzz/sv.dict"
n=0
case "$T" in
  *tape)
    # structured targets read a choice tape: seed with pseudo-random tapes of many lengths (derived from the seed)
    MAXLEN=4800; DICT=""
    python3 - "$WORK/corpus" "$SEED" <<'PYEOF'
import sys,random
d,seed=sys.argv[1],int(sys.argv[2])
r=random.Random(seed)
for i in range(96):
    n=r.choice([40,120,400,800,1600,3200,4800])
    open('%s/seed%d'%(d,i),'wb').write(bytes(r.getrandbits(8) for _ in range(n)))
PYEOF
    n=96 ;;
  *)
    # seeds: small corpus files (libFuzzer grows length slowly from an empty corpus)
    for f in "$ROOT"/corpus/sv/*.sv "$ROOT"/corpus/pp/* "$ROOT"/corpus/lib/*; do
      s=$(wc -c <"$f"); if [ "$s" -le 600 ]; then cp "$f" "$WORK/corpus/seed$n"; n=$((n+1)); fi
    done ;;
esac
# An ASan build of the structured targets grows by ~1 MB of resident memory per execution (allocator churn; the library
# itself does not leak: the same work in the harness stays at 250 MB). Sixteen workers must not reach the machine's memory:
# split the campaign into more, shorter jobs (every job is a fresh process sharing the corpus directory) and let ASan hand
# memory back.
JOBS="$W"
case "$T" in
  *tape) JOBS=$((W * 4)); RUNS=$(( (RUNS + 3) / 4 )) ;;
esac
export ASAN_OPTIONS="${ASAN_OPTIONS:-quarantine_size_mb=32:allocator_release_to_os_interval_ms=500:malloc_context_size=2:detect_leaks=0}"
BIN="$ROOT/fuzz/target/x86_64-unknown-linux-gnu/release/$T"
[ -x "$BIN" ] || { echo "fuzz binary missing: $BIN"; exit 2; }
cd "$WORK" || exit 2
"$BIN" "$WORK/corpus" -artifact_prefix="$WORK/artifacts/" -runs="$RUNS" -seed="$SEED" -max_len=$MAXLEN -len_control=0 $DICT \
   -jobs="$JOBS" -workers="$W" -rss_limit_mb=3072 -timeout=300 -report_slow_units=120 -print_final_stats=1 >"$WORK/driver.log" 2>&1
RC=$?
EXECS=$(grep -h "stat::number_of_executed_units" "$WORK"/fuzz-*.log 2>/dev/null | awk '{s+=$2} END {print s+0}')
COV=$(grep -h "cov:" "$WORK"/fuzz-*.log 2>/dev/null | sed 's/.*cov: \([0-9]*\).*/\1/' | sort -n | tail -1)
CORP=$(ls "$WORK/corpus" | wc -l)
SLOW=$(ls "$WORK/artifacts" 2>/dev/null | grep -c "^slow-unit-")
INCON=$(ls "$WORK/artifacts" 2>/dev/null | grep -c "^timeout-\|^oom-")
echo "FUZZ target=$T executions=$EXECS max_cov=${COV:-0} corpus_files=$CORP seeds=$n slow_units=$SLOW inconclusive_jobs=$INCON"
rm -rf "$ROOT"/out/scratch-fuzz-* 2>/dev/null
[ "$SLOW" = "0" ] || echo "NOTE $SLOW slow unit(s) reported by libFuzzer (not a property violation)"
[ "$INCON" = "0" ] || echo "INCONCLUSIVE $INCON worker job(s) ended early on a timeout / memory limit (not a property violation)"
ART=$(ls "$WORK/artifacts" 2>/dev/null | grep "^crash-" | head -1)
if [ -n "$ART" ]; then
  mkdir -p "$ROOT/out/replays"; cp "$WORK/artifacts/$ART" "$ROOT/out/replays/$T-$ART"
  echo "ARTIFACT $ROOT/out/replays/$T-$ART"
  grep -h "panicked\|ERROR\|SUMMARY" "$WORK"/fuzz-*.log | head -5
  rm -rf "$WORK"; exit 1
fi
rm -rf "$WORK"
[ "$EXECS" -gt 0 ] 2>/dev/null || { echo "libFuzzer executed nothing (driver exit $RC)"; exit 2; }
if [ "$RC" != "0" ] && [ "$INCON" = "0" ]; then echo "libFuzzer driver exit $RC without artifact"; exit 2; fi
exit 0
