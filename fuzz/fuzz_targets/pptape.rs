#![no_main]
// Structured, coverage-guided: the input bytes are a choice tape for the preprocessor-program generator;
// oracles of C03 (origins), C04/C05/C10/C11 (reference model: tokens, define table, errors) run inside.
use libfuzzer_sys::fuzz_target;
use svverif::engine::{fuzz_ctx, tape_from_bytes, Stats};
use svverif::ppm::gen::PpCfg;
use svverif::props::{c03, ppcommon};
use svverif::tape::Tape;
include!("common.rs");

fuzz_target!(|data: &[u8]| {
    let ctx = fuzz_ctx();
    let tape = tape_from_bytes(data);
    on_big_stack(|| {
        let mut t = Tape::new(&tape);
        let mut st = Stats::default();
        let mut cfg = PpCfg::full();
        cfg.faults = t.chance(1, 6);
        cfg.max_items = 8;
        let case = match ppcommon::gen_case(ctx, &mut t, &cfg) {
            Ok(c) => c,
            Err(_) => return,
        };
        // K2 / K6 are listed for C04: use that property's list for classification
        match ppcommon::compare_with_model(ctx, "C04", case, &mut st) {
            Ok(o) => {
                if let Err((msg, _)) = c03::check_origins(&o, &mut st) {
                    panic!("C03 violated: {}", msg);
                }
            }
            Err(f) => panic!("preprocessor differs from the reference model: {}", f.msg),
        }
    });
});
