#![no_main]
// Structured, coverage-guided: the input bytes are a choice tape for the Annex A generator;
// oracles of C02 (acceptance + classification), C01 (tiling) and C16 (traversal) run inside.
use libfuzzer_sys::fuzz_target;
use svverif::engine::{fuzz_ctx, tape_from_bytes, Stats};
use svverif::gen::layout::{Feats, TriviaCfg};
use svverif::gen::svgen;
use svverif::props::{c02, c16};
use svverif::sv::{self, Grammar};
use svverif::tape::Tape;
include!("common.rs");

fuzz_target!(|data: &[u8]| {
    let ctx = fuzz_ctx();
    let tape = tape_from_bytes(data);
    on_big_stack(|| {
        let mut t = Tape::new(&tape);
        let mut st = Stats::default();
        let p = svgen::generate_mixed(&mut t, &svgen::Cfg::default());
        let mut f = Feats::default();
        let text = p.render(&mut t, &TriviaCfg::full(), &mut f);
        if let Err(fail) = c02::run_program(ctx, &p, &text, &mut st) {
            panic!("C02 violated: {}", fail.msg);
        }
        if let Ok((tree, pp)) = sv::parse_text(Grammar::Sv, &text, false) {
            if let Err((m, _)) = sv::check_tiling(&tree, &pp, true, 2000) {
                panic!("C01 violated: {}", m);
            }
            if let Err((m, _)) = c16::check_traversal(&tree, &pp, 800) {
                panic!("C16 violated: {}", m);
            }
        }
    });
});
