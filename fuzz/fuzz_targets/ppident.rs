#![no_main]
// C06: directive-free text is the identity (or exactly the RC1 prediction of listed finding K1);
// rejection only for an unterminated string / block comment or a lone backslash.
use libfuzzer_sys::fuzz_target;
use svverif::gen::textgen;
use svverif::lexer::{lex_opts, LexError};
use svverif::sv;
include!("common.rs");

fuzz_target!(|data: &[u8]| {
    let text = match std::str::from_utf8(data) {
        Ok(t) => t,
        Err(_) => return,
    };
    if text.contains('`') {
        return;
    }
    on_big_stack(|| {
        let path = std::path::Path::new("p.sv");
        match sv::pp(text, path, &Default::default(), &[], false, false) {
            Ok((t, _)) => {
                if t.text() != text {
                    let pred = textgen::rc1_predict(text);
                    if pred.as_deref() != Some(t.text()) {
                        panic!("C06 identity violated and not the RC1 prediction: {:?} -> {:?}", text, t.text());
                    }
                } else {
                    for i in 0..text.len() {
                        match t.origin(i) {
                            Some((p, o)) if p.as_path() == path && o == i => {}
                            other => panic!("C06 origin({}) = {:?}", i, other),
                        }
                    }
                }
            }
            Err(e) => {
                let lexed = lex_opts(text, true);
                let excused = matches!(lexed, Err(LexError::UnterminatedString(_)) | Err(LexError::UnterminatedBlockComment(_)) | Err(LexError::LoneBackslash(_)));
                if !excused || !matches!(e, sv::Error::Preprocess(_)) {
                    panic!("C06: well-formed directive-free text rejected: {:?} -> {}", text, sv::err_kind(&e));
                }
            }
        }
    });
});
