// Shared helpers for the libFuzzer targets (included by each target).

/// Bracket / block-keyword nesting estimate; deeper inputs are skipped (stack exclusion of C08).
pub fn nesting(s: &str) -> usize {
    let mut d: i64 = 0;
    let mut max = 0i64;
    for c in s.chars() {
        match c {
            '(' | '[' | '{' => {
                d += 1;
                max = max.max(d);
            }
            ')' | ']' | '}' => d -= 1,
            _ => {}
        }
    }
    let words = s
        .split(|c: char| !c.is_alphanumeric() && c != '_')
        .filter(|w| matches!(*w, "begin" | "fork" | "module" | "case" | "generate" | "function" | "task" | "class" | "if" | "ifdef" | "ifndef"))
        .count() as i64;
    (max.max(0) + words) as usize
}

/// Run `f` on a thread with a large stack (the parser recurses deeply); a panic in `f` aborts the process,
/// which libFuzzer records as a crash with the input.
/// One worker thread lives for the whole process: creating a thread with a 128 MiB stack per execution made the
/// resident size of an ASan build grow by ~3 MB per execution (5 GB per worker after 1 600 executions).
pub fn on_big_stack<F: FnOnce() + Send>(f: F) {
    use std::sync::mpsc::{channel, Receiver, Sender};
    use std::sync::{Mutex, OnceLock};
    type Job = Box<dyn FnOnce() + Send + 'static>;
    static WORKER: OnceLock<Mutex<(Sender<Job>, Receiver<bool>)>> = OnceLock::new();
    let w = WORKER.get_or_init(|| {
        let (tx, rx) = channel::<Job>();
        let (dtx, drx) = channel::<bool>();
        std::thread::Builder::new()
            .stack_size(128 << 20)
            .spawn(move || {
                for job in rx {
                    let ok = std::panic::catch_unwind(std::panic::AssertUnwindSafe(job)).is_ok();
                    let _ = dtx.send(ok);
                }
            })
            .expect("spawn");
        Mutex::new((tx, drx))
    });
    let guard = w.lock().unwrap_or_else(|e| e.into_inner());
    // the job borrows from the caller's frame; the caller blocks until the job is done, so the borrow outlives it
    let job: Box<dyn FnOnce() + Send + '_> = Box::new(f);
    let job: Job = unsafe { std::mem::transmute(job) };
    guard.0.send(job).expect("worker alive");
    let ok = guard.1.recv().unwrap_or(false);
    if !ok {
        std::process::abort();
    }
}
