// Shared helpers for the libFuzzer targets (included by each target).

/// Bracket / block-keyword nesting estimate; deeper inputs are skipped (stack exclusion of C08).
pub fn nesting(s: &str) -> usize {
    let mut d: i64 = 0;
    let mut max = 0i64;
    for c in s.chars() {
        match c {
            '(' | '[' | '{' => {
                d += 1;
                max = max.max(d);
            }
            ')' | ']' | '}' => d -= 1,
            _ => {}
        }
    }
    let words = s
        .split(|c: char| !c.is_alphanumeric() && c != '_')
        .filter(|w| matches!(*w, "begin" | "fork" | "module" | "case" | "generate" | "function" | "task" | "class" | "if" | "ifdef" | "ifndef"))
        .count() as i64;
    (max.max(0) + words) as usize
}

/// Run `f` on a thread with a large stack (the parser recurses deeply); a panic in `f` aborts the process,
/// which libFuzzer records as a crash with the input.
pub fn on_big_stack<F: FnOnce() + Send>(f: F) {
    std::thread::scope(|s| {
        let h = std::thread::Builder::new().stack_size(128 << 20).spawn_scoped(s, f).expect("spawn");
        if h.join().is_err() {
            std::process::abort();
        }
    });
}
