#![no_main]
// C01: both grammars, both modes; the tiling oracle runs inside the target.
use libfuzzer_sys::fuzz_target;
use svverif::sv::{self, Grammar};
include!("common.rs");

fuzz_target!(|data: &[u8]| {
    let text = match std::str::from_utf8(data) {
        Ok(t) => t,
        Err(_) => return,
    };
    if nesting(text) > 24 {
        return;
    }
    on_big_stack(|| {
        for g in [Grammar::Sv, Grammar::Lib] {
            for incomplete in [false, true] {
                if let Ok((tree, pp)) = sv::parse_text(g, text, incomplete) {
                    if let Err((msg, _)) = sv::check_tiling(&tree, &pp, !incomplete, 2000) {
                        panic!("C01 tiling violated ({:?}, incomplete={}): {}", g, incomplete, msg);
                    }
                }
            }
        }
    });
});
