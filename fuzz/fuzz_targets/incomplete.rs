#![no_main]
// C15: incomplete mode never returns Error::Parse, tiles a prefix, agrees with strict mode.
use libfuzzer_sys::fuzz_target;
use svverif::engine::{fuzz_ctx, Stats};
use svverif::props::c15;
use svverif::sv::Grammar;
include!("common.rs");

fuzz_target!(|data: &[u8]| {
    let text = match std::str::from_utf8(data) {
        Ok(t) => t,
        Err(_) => return,
    };
    if nesting(text) > 24 {
        return;
    }
    let k3 = fuzz_ctx().findings.is_known("C15", "K3");
    on_big_stack(|| {
        let mut st = Stats::default();
        for g in [Grammar::Sv, Grammar::Lib] {
            if let Err(f) = c15::check_incomplete(g, text, &mut st, "fuzz", ")", k3) {
                panic!("C15 violated: {}", f.msg);
            }
        }
    });
});
