#![no_main]
// C08: every string entry point and tree accessor on arbitrary text; any panic is a crash.
use libfuzzer_sys::fuzz_target;
include!("common.rs");

fuzz_target!(|data: &[u8]| {
    let text = match std::str::from_utf8(data) {
        Ok(t) => t,
        Err(_) => return,
    };
    if nesting(text) > 24 {
        return;
    }
    on_big_stack(|| {
        let defs = svverif::sv::Defs::new();
        let _ = svverif::props::c08::all_string_entry_points(text, std::path::Path::new("fuzz.sv"), &defs, &[]);
    });
});
